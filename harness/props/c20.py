"""C20 — optional subsystems fail soft: table + skeleton theorems, tied by fault injection into the real run_turn."""
from __future__ import annotations

import base64
import copy
import json
import random
from typing import Any, Dict, List, Optional, Tuple

from harness.core import Component, Ctx, run_driver, first_diff, _canon
from harness.lib import turnrig as TR

RULE = ("(a) real-stage worlds (small surface graph, 2-3 episodes, 2-turn sequences) with exceptions from a 12-type pool injected "
        "at every declared fail-soft site of the real code, singly and in pairs, plus garbage snapshot files at boot; "
        "(b) scripted-stub turns (random gates, stage outputs, faults at any site incl. unprotected ones) executed on the real "
        "run_turn and on the Lean skeleton. A case is non-trivial when at least one injected fault actually fired or a garbage "
        "file was read; distinct by canonical JSON of the case")
ASSUMPTIONS = [
    "a failing subsystem fails atomically at the call (the injected exception is raised on entry); partial effects of a real subsystem before it raises are outside the skeleton",
    "exceptions derive from Exception (BaseException such as KeyboardInterrupt escapes by design)",
    "the GEL store contents are not part of the skeleton state: a failure in the middle of the maintenance block leaves earlier merges/splits applied (observation, not in the canonical streams)",
    "stage callables (T1, T2, T3 planner/speaker, T4), gel_observe, gel_tick, write_snapshot body and the health check are not in the property's fail-soft list; they are bare calls and a failure there aborts the turn (machine-checked witness C20_observed_unguarded)",
]
CLAIM = {
    "text": ("Unbounded Lean theorems over the run_turn control skeleton (stages and optional subsystems as arbitrary Except-valued "
             "parameters; guard status of each call taken from a table regenerated from the repository's AST): every declared fail-soft "
             "site is inside try/except Exception (decide over the table); for every script failing only at protected sites (any subset, "
             "any exception values, any stage outputs/config/state) the turn returns a result, and result + all records + state equal those "
             "of the run in which those subsystems are idle; GEL maintenance failures = maintenance switched off; reflect failure = reflection off; "
             "invalidation failure = cache busting off; adapter failure = no adapter; store batch failure = per-delta fallback. Tied to the code by "
             "fault injection at every generated site of the real run_turn (single + pairs, 12 exception types, garbage snapshot files) compared "
             "with off/idle baselines, and by differential execution of scripted-stub turns against the skeleton."),
    "note": ("Trusted: Lean kernel + propext/Quot.sound/Classical.choice; harness/tables/failsoft.py (AST walk); the rig's monkeypatching. "
             "Only covered by correspondence (not by a theorem): the inner layers of apply_quality and load_latest_snapshot's handling of arbitrary file "
             "contents (table rows + injection/garbage streams), and that a real subsystem leaves no partial effect before raising."),
    "technique": "Lean 4 proof over an executable control skeleton + AST-generated guard table + in-process fault injection into the real orchestrator",
    "design_ref": "DESIGN.md §4 C20, §3 Turn",
}
DRIVER_MODULES = ['HTurn', 'HQuality']
TABLES = ['failsoft']
MODELLED = {
    "clematis/engine/orchestrator/core.py": ["Orchestrator.run_turn", "_run_reflection_if_enabled"],
    "clematis/engine/apply.py": ["apply_changes"],
    "clematis/engine/snapshot.py": ["write_snapshot", "_write_sidecar_meta", "load_latest_snapshot"],
    "clematis/engine/stages/t2/quality.py": ["apply_quality"],
    "clematis/engine/stages/t3/trace.py": ["emit_trace"],
    "clematis/engine/orchestrator/logging.py": ["log_t3_reflection"],
}
TRUSTED = ["modelled, not verified: Python exception propagation/try-except-finally semantics as encoded by `tryD`; "
           "the stages' own behaviour (parameters of the skeleton)"]

EXCS = ["KeyError", "OSError", "ValueError", "RecursionError", "RigFault", "TypeError", "AttributeError",
        "ZeroDivisionError", "MemoryError", "IndexError", "RuntimeError", "UnicodeError"]
# every type is injected with every message shape: with a message, no args, "", whitespace-only, multi-line,
# non-string args, and an instance whose __str__/__repr__ raise
VARIANTS = ["noargs", "msg", "strraises", "ws", "empty", "nonstr", "multiline"]   # enumeration order: arg-less first
assert set(VARIANTS) == set(TR.EXC_VARIANTS)


def pick_exc(rng: random.Random, k: Optional[int] = None) -> str:
    """`Type:variant`; with `k` the (type, variant) pair is enumerated systematically"""
    if k is not None:
        return f"{EXCS[k % len(EXCS)]}:{VARIANTS[(k // len(EXCS)) % len(VARIANTS)]}"
    r = rng.random()
    v = "msg" if r < 0.25 else ("noargs" if r < 0.5 else rng.choice(VARIANTS[2:]))
    return f"{rng.choice(EXCS)}:{v}"


def exc_code(name: str) -> int:
    return 100 + EXCS.index(TR.exc_type_name(name))


# ---------------------------------------------------------------------------------------------
# (a) real stages + fault injection
# ---------------------------------------------------------------------------------------------
PLAN = {"ops": [{"kind": "Speak", "intent": "ack", "topic_labels": [], "max_tokens": 16}], "reflection": True,
        "deltas": [["node", "n:hello", "weight", 0.2, 0], ["edge", "e:a|r|b", "weight", -0.1, 0]]}

# site -> (cfg needed, baseline kind)
#   baseline kinds: "same" fault-free run; "cfg" run with a cfg override; "stub" run with an idle stub at that site
REAL_SITES: Dict[str, Dict[str, Any]] = {
    "boot_load": {"base": "same"},
    "gel_merge_candidates": {"base": "cfg", "off": {"graph": {"merge": {"enabled": False}, "split": {"enabled": False}, "promotion": {"enabled": False}}}},
    "gel_split_candidates": {"base": "cfg", "off": {"graph": {"merge": {"enabled": False}, "split": {"enabled": False}, "promotion": {"enabled": False}}}},
    "gel_promote_clusters": {"base": "cfg", "off": {"graph": {"merge": {"enabled": False}, "split": {"enabled": False}, "promotion": {"enabled": False}}}},
    "gel_apply_merge": {"base": "cfg", "off": {"graph": {"merge": {"enabled": False}, "split": {"enabled": False}, "promotion": {"enabled": False}}},
                        "with": {"gel_merge_candidates": {"mode": "stub", "ret": [{"nodes": ["x", "y"]}]}}},
    "gel_apply_split": {"base": "cfg", "off": {"graph": {"merge": {"enabled": False}, "split": {"enabled": False}, "promotion": {"enabled": False}}},
                        "with": {"gel_split_candidates": {"mode": "stub", "ret": [{"nodes": ["x", "y"]}]}}},
    "gel_apply_promotion": {"base": "cfg", "off": {"graph": {"merge": {"enabled": False}, "split": {"enabled": False}, "promotion": {"enabled": False}}},
                            "with": {"gel_promote_clusters": {"mode": "stub", "ret": [{"nodes": ["x", "y"]}]}}},
    "adapter_build": {"base": "stub", "idle": {"mode": "stub", "ret": None}},
    "reflect": {"base": "cfg", "off": {"t3": {"allow_reflection": False}}},
    "reflect_run": {"base": "cfg", "off": {"t3": {"allow_reflection": False}}},
    "reflect_write": {"base": "cfg", "off": {"t3": {"allow_reflection": False}}},
    "reflect_log": {"base": "same"},
    "t3_trace_logs": {"base": "same"},
    "hybrid_rerank": {"base": "stub", "idle": {"mode": "stub", "ret": None}},
    # fusion failing = fusion off (theorem C20_quality_fuse_fail_eq_off, and the `quality` component compares
    # apply_quality's whole output).  T2's metrics writer emits `t2q.mmr.lambda`, `t2q.mmr.selected` and
    # `t2q.diversity_avg_pairwise` whenever the SWITCH t2.quality.enabled is set (an echo of the switch itself, not of
    # the subsystem's behaviour), so the presence of those three keys is left out of the record comparison
    "quality_fuse": {"base": "cfg", "off": {"t2": {"quality": {"enabled": False}}}, "needs": "fusion",
                     "ignore": ["t2q.diversity_avg_pairwise", "t2q.mmr.lambda", "t2q.mmr.selected"]},
    "quality_mmr": {"base": "cfg", "off": {"t2": {"quality": {"mmr": {"enabled": False}}}}, "needs": "fusion"},
    "quality_trace": {"base": "same"},
    "quality_cfgsnap": {"base": "same"},
    "cache_invalidate": {"base": "cfg", "off": {"t4": {"cache_bust_mode": "none"}}},
    "store_apply_batch": {"base": "same"},
    # a store that refuses every call = a store that edits nothing (apply record with applied = clamps = 0)
    "store_apply_all": {"base": "same", "patch": "apply_zero"},
    "sidecar_write": {"base": "same"},
    "sidecar_atomic": {"base": "same"},
    "sidecar_created_at": {"base": "same"},
    # store hooks touched by the snapshot writer (cadence turns) and the boot loader
    "store_hook_export": {"base": "same", "needs": "hooks"},
    # export_state() "succeeds" with something the writer cannot encode (shape drawn per case)
    "store_hook_export#shape": {"base": "same", "needs": "hooks", "shape": True},
    # GEL observe / decay tick (fail-soft since fix C20_gel_observe_tick_fail_soft): idle = the pass does nothing
    "gel_observe": {"base": "stub", "idle": {"mode": "stub", "ret": {}}},
    "gel_tick": {"base": "stub", "idle": {"mode": "stub", "ret": {}}},
    "store_hook_import": {"base": "same", "needs": "hooks", "patch": "completes_only", "boot_file": True},
    # the fusion layer "succeeds" with malformed output (real fuse, damaged afterwards): non-float scores only
    # affect the best-effort enrichment (= fault-free run); a None entry aborts the block before anything is applied
    # (= fusion off)
    # (MMR is kept off for this site: it is a second, legitimate consumer of the scores)
    "quality_fuse#bad_score": {"base": "same", "needs": "fusion_nommr", "rig": ("quality_fuse", {"mode": "mangle", "how": "bad_score"})},
    "quality_fuse#none_entry": {"base": "cfg", "off": {"t2": {"quality": {"enabled": False}}}, "needs": "fusion",
                                "ignore": ["t2q.diversity_avg_pairwise", "t2q.mmr.lambda", "t2q.mmr.selected"],
                                "rig": ("quality_fuse", {"mode": "mangle", "how": "none_entry"})},
}
assert all(k.split("#")[0] in TR.SITES for k in REAL_SITES)
STORE_STATE_SNAPSHOT = json.dumps({"version_etag": "3", "schema_version": "v1", "turn": 1, "agent": "a1",
                                   "store": {"state": {"w": [[["node", "n:x", "weight"], 0.5]]}}})
FUSION_CFG = {"t2": {"quality": {"enabled": True, "shadow": False, "mmr": {"enabled": True}}}}

GARBAGE = [
    ("truncated", lambda rng: ("state_a1.json", '{"version_etag": "7", "store": {"wei')),
    ("binary", lambda rng: ("state_a1.json", {"b64": base64.b64encode(bytes(rng.randrange(256) for _ in range(64))).decode()})),
    ("empty", lambda rng: ("state_a1.json", "")),
    ("wrong_schema_list", lambda rng: ("state_a1.json", "[1, 2, 3]")),
    ("wrong_schema_scalar", lambda rng: ("snap_000001.json", "42")),
    ("foreign_json", lambda rng: ("package.json", '{"name": "x", "dependencies": {"a": "1"}}')),
    ("delta_without_baseline", lambda rng: ("snapshot-abc.delta.json", '{"mode": "delta", "delta_of": "zzz", "etag_to": null}\n{"_del": ["x"], "_set": {}}')),
    ("header_then_garbage", lambda rng: ("snap_000002.json", '{"mode": "full"}\n{not json')),
    ("nul_bytes", lambda rng: ("state_a1.json", {"b64": base64.b64encode(b"\x00" * 32).decode()})),
    ("deep_nesting", lambda rng: ("state_a1.json", "[" * 5000 + "]" * 5000)),
    ("gel_garbage", lambda rng: ("state_a1.json", '{"gel": {"edges": {"k": 5, "z": {"src": 1}}, "nodes": 7}, "store": 3}')),
    ("directory", lambda rng: ("snap_000009.json/", "")),
]


def header_payload(rng: random.Random) -> Tuple[str, str, Any]:
    """two-line `header\npayload` snapshot files whose HEADER is intact and carries a version (`etag_to`, and
    `delta_of` for deltas) while the file as a whole cannot be loaded: an orphaned delta (neither baseline nor
    sibling full present), a payload that is valid JSON but not an object, a truncated payload.  A loader that
    fails on such a file must leave the state exactly as an empty snapshot directory does."""
    etag = rng.choice(["41", "17", 18, "abc", "7"])
    kind = rng.choice(["delta_orphan", "delta_orphan", "payload_list", "payload_string", "payload_number",
                       "payload_bool", "payload_truncated", "payload_empty_list", "payload_null", "delta_payload_list"])
    hdr: Dict[str, Any] = {"mode": "full", "etag_to": etag, "codec": "none", "schema": "snapshot:v1"}
    body = json.dumps({"version_etag": None, "store": {"weights": [{"target_kind": "node", "target_id": "n:x",
                                                                   "attr": "weight", "value": 0.9}]},
                       "gel": {"nodes": {}, "edges": {"a→b": {"src": "a", "dst": "b", "weight": 0.5}}}})
    if kind.startswith("delta"):
        hdr.update({"mode": "delta", "delta_of": rng.choice(["zzz", "40", "0"]), "etag_from": "40"})
        if kind == "delta_orphan":
            body = json.dumps(rng.choice([{"_del": ["x"], "_set": {"version_etag": "99"}}, {"store": {"weights": []}}, {}]))
        else:
            body = "[1, 2]"
    elif kind == "payload_list":
        body = rng.choice(["[1, 2, 3]", '[{"version_etag": "5"}]', '["x"]'])
    elif kind == "payload_string":
        body = rng.choice(['"snapshot"', '"{}"'])
    elif kind == "payload_number":
        body = rng.choice(["5", "-1", "3.5", "1e400"])
    elif kind == "payload_bool":
        body = "true"
    elif kind == "payload_truncated":
        body = body[: rng.randrange(1, len(body) - 1)]
    elif kind == "payload_empty_list":
        body = rng.choice(["[]", '""', "0", "false"])     # falsy payloads: the loader treats them as {}
    elif kind == "payload_null":
        body = "null"
    name = rng.choice(["snap_000041.json", "state_a1.json", f"snapshot-{etag}.delta.json", "zz_latest.json"])
    return "hp:" + kind, name, json.dumps(hdr) + "\n" + body


def foreign_gel(rng: random.Random) -> Tuple[str, str, Any]:
    """a well-formed, loadable snapshot written by "someone else": its GEL section has records the engine's own
    passes never produce (null / non-dict attrs, odd attr fields, null / string / list weights, missing or non-string
    src/dst, non-dict edge records, list-form edges, odd nodes / meta).  The loader accepts it; with graph.enabled
    every GEL pass (observe, decay tick, merge / split / promotion) then runs over those records."""
    eps = ["ep0", "ep1", "ep2", "n:x", "a"]

    def edge() -> Any:
        if rng.random() < 0.12:
            return rng.choice([None, 5, "edge", [1, 2], True, []])
        ed: Dict[str, Any] = {"rel": rng.choice(["coact", "coact", "concept", None, 3])}
        for k in ("src", "dst"):
            r = rng.random()
            if r < 0.8:
                ed[k] = rng.choice(eps)
            elif r < 0.92:
                ed[k] = rng.choice([None, 1, 0, True, ["a"], {"id": "a"}])
        r = rng.random()
        if r < 0.6:
            ed["weight"] = rng.choice([0.5, 0.9, -0.4, 0.0, 1, 1e-9])
        elif r < 0.9:
            ed["weight"] = rng.choice([None, "0.5", "w", [1], {"v": 1}, True, 1e400, -1e400, "nan"])
        r = rng.random()
        if r < 0.45:
            ed["attrs"] = rng.choice([None, "x", [1], 0, 7, True, [], ""])
        elif r < 0.75:
            ed["attrs"] = {"coact": rng.choice([1, "x", None, [1], 2.5, "3"]), "last_seen_turn": rng.choice([None, "t", 1, [2]])}
        elif r < 0.9:
            ed["attrs"] = {}
        if rng.random() < 0.3:
            ed["updated_at"] = rng.choice([None, "2024", 5, {"t": 1}])
        return ed
    n = rng.choice([1, 2, 3, 5])
    if rng.random() < 0.7:
        edges: Any = {rng.choice(["k%d" % j, "ep0→ep1", "a→b", ""]): edge() for j in range(n)}
    else:
        edges = [edge() for _ in range(n)]
    gel: Any = {"edges": edges}
    r = rng.random()
    if r < 0.5:
        gel["nodes"] = rng.choice([None, [], {}, "n", 5, [None, {"id": "a"}, 3], {"a": None, "b": 5, "c": {"id": "c", "attrs": None}}])
    r = rng.random()
    if r < 0.5:
        gel["meta"] = rng.choice([None, [], "m", 7, {"merges": None, "splits": "x", "promotions": 3, "concept_nodes_count": "many"},
                                  {"edges_count": None, "schema": 5}])
    if rng.random() < 0.08:
        gel = rng.choice([None, [], "gel", 5, {"edges": None}, {"edges": "e"}])
    body: Dict[str, Any] = {"version_etag": rng.choice(["3", "7", 12]), "schema_version": "v1", "turn": 1, "agent": "a1"}
    body[rng.choice(["gel", "gel", "graph"])] = gel
    return "foreign_gel", rng.choice(["state_a1.json", "snap_000003.json"]), json.dumps(body)


VALID_SNAPSHOT = {
    "turn": 1, "agent": "a1", "version_etag": "3", "applied": 1, "deltas": [], "schema_version": "v1",
    "store": {"weights": [{"target_kind": "node", "target_id": "n:x", "attr": "weight", "value": 0.2}]},
    "graph_schema_version": "v1.1",
    "gel": {"nodes": {"a": {"id": "a"}}, "edges": {"a→b": {"id": "a→b", "src": "a", "dst": "b", "weight": 0.5, "rel": "coact"}},
            "meta": {"schema": "v1.1", "merges": [], "splits": [], "promotions": [], "concept_nodes_count": 0, "edges_count": 1}},
    "graph": {"nodes_count": 1, "edges_count": 1, "meta": {"last_update": None}},
}
JUNK = [None, 5, -1, "x", "", [], {}, [1], {"a": 1}, 1e308, True, [[[]]], {"state": 7}, {"weights": 3}, {"weights": [3, None]}]


def mutate_snapshot(rng: random.Random) -> Tuple[str, Any]:
    """a valid snapshot body damaged structurally (a random subtree replaced by junk / deleted) or textually
    (truncated, bytes flipped)"""
    d = copy.deepcopy(VALID_SNAPSHOT)
    mode = rng.choice(["struct", "struct", "truncate", "flip", "wrap"])
    if mode in ("struct", "wrap"):
        for _ in range(rng.choice([1, 2, 3])):
            node: Any = d
            while isinstance(node, dict) and node and rng.random() < 0.6:
                k = rng.choice(sorted(node))
                if isinstance(node[k], dict) and node[k] and rng.random() < 0.6:
                    node = node[k]
                else:
                    if rng.random() < 0.2:
                        del node[k]
                    else:
                        node[k] = copy.deepcopy(rng.choice(JUNK))
                    break
        body: Any = json.dumps([d] if mode == "wrap" else d)
        return "struct" if mode == "struct" else "wrapped", body
    raw = json.dumps(d).encode("utf-8")
    if mode == "truncate":
        return "truncated_valid", {"b64": base64.b64encode(raw[: rng.randrange(1, len(raw))]).decode()}
    ba = bytearray(raw)
    for _ in range(rng.choice([1, 3, 10])):
        ba[rng.randrange(len(ba))] = rng.randrange(256)
    return "flipped", {"b64": base64.b64encode(bytes(ba)).decode()}


def real_world_spec(rng: random.Random) -> dict:
    words = ["hello", "world", "reply", "tree", "river", "stone"]
    nodes = [[f"n:{w}", w] for w in words[: rng.choice([2, 3, 5])]]
    edges = []
    for i in range(len(nodes) - 1):
        edges.append([f"e{i}", nodes[i][0], nodes[i + 1][0], rng.choice([0.3, 0.5, 0.8, 1.0]), rng.choice(["supports", "associates"])])
    eps = [{"id": f"ep{i}", "text": " ".join(rng.sample(words, 3)), "owner": "any",
            "ts": f"2024-01-0{i + 1}T00:00:00+00:00", "tags": []} for i in range(rng.choice([1, 2, 3]))]
    cfg = {
        "graph": {"enabled": True, "merge": {"enabled": True}, "split": {"enabled": True}, "promotion": {"enabled": True}},
        "t3": {"allow_reflection": True, "backend": rng.choice(["llm", "llm", "rulebased"]), "trace": {"enabled": True}},
        "perf": {"enabled": True, "metrics": {"enabled": True, "report_memory": True}},
        "t2": {"hybrid": {"enabled": True}, "quality": {"enabled": False, "shadow": True}},
        "t4": {"cache_bust_mode": "on-apply", "snapshot_every_n_turns": rng.choice([1, 1, 2, 3])},
        "scheduler": {"budgets": {"ops_reflection": 2}},
    }
    return {"cfg": cfg, "graph": {"nodes": nodes, "edges": edges}, "episodes": eps, "logs_list": "plain"}


class RealFaults(Component):
    """Deciding component: faults at declared sites of the REAL code vs off/idle baselines."""
    name = "failsoft_real"
    budget = {"quick": 150, "thorough": 1500, "search": 300}

    def gen(self, rng: random.Random, i: int) -> dict:
        sites = sorted(REAL_SITES)
        kind = "garbage" if i % 5 == 4 else ("pair" if i % 3 == 2 else "single")
        spec = real_world_spec(rng)
        texts = [rng.choice(["hello world", "river stone", "tree", ""]), rng.choice(["world reply", "hello", "stone tree"])]
        if rng.random() < 0.25:
            texts.append(rng.choice(["hello world", "reply river"]))
        case: Dict[str, Any] = {"kind": kind, "spec": spec, "texts": texts, "faults": []}
        if kind == "garbage":
            stream = (i // 5) % 4
            if stream == 3:
                tag, name, content = foreign_gel(rng)
                # the episodes the foreign edges mention are retrieved, so the observe pass touches those records
                texts = [rng.choice(["river reply stone", "hello stone world", "reply stone tree"]) for _ in texts]
                case["texts"] = texts
            elif stream == 0:
                tag, mk = GARBAGE[(i // 20) % len(GARBAGE)]
                name, content = mk(rng)
            elif stream == 1:
                tag, content = mutate_snapshot(rng)
                name = rng.choice(["state_a1.json", "snap_000007.json", "other.json"])
            else:
                tag, name, content = header_payload(rng)
            case["garbage"] = tag
            case["files"] = {name: content}
            if rng.random() < 0.3:
                case["faults"].append({"site": rng.choice(sites), "exc": pick_exc(rng), "turn": rng.randrange(2)})
        else:
            n = 1 if kind == "single" else 2
            base = sites[i % len(sites)]
            chosen = [base] + ([sites[(i // len(sites) + 3 * (i % len(sites))) % len(sites)]] if n == 2 else [])
            for s in chosen:
                case["faults"].append({"site": s, "exc": pick_exc(rng, (i // len(sites)) * 5 + rng.randrange(len(EXCS) * len(VARIANTS))),
                                       "turn": rng.randrange(2)})
        seen, uniq = set(), []
        for f in case["faults"]:        # at most one behaviour per underlying rig site
            key = (REAL_SITES[f["site"]].get("rig") or (f["site"].split("#")[0],))[0]
            if REAL_SITES[f["site"]].get("shape"):
                f["how"] = TR.EXPORT_SHAPES[(i // len(sites) + rng.randrange(3)) % len(TR.EXPORT_SHAPES)]
            if key not in seen:
                seen.add(key)
                uniq.append(f)
        case["faults"] = uniq
        if any(REAL_SITES[f["site"]].get("needs") == "fusion" for f in case["faults"]) or rng.random() < 0.15:
            spec["cfg"] = TR.deep_merge(spec["cfg"], FUSION_CFG)
        if any(REAL_SITES[f["site"]].get("needs") == "fusion_nommr" for f in case["faults"]):
            spec["cfg"] = TR.deep_merge(TR.deep_merge(spec["cfg"], FUSION_CFG), {"t2": {"quality": {"mmr": {"enabled": False}}}})
        if any(REAL_SITES[f["site"]].get("needs") == "hooks" for f in case["faults"]) or rng.random() < 0.2:
            spec["store_hooks"] = True
        for f in case["faults"]:
            if REAL_SITES[f["site"]].get("boot_file") and not case.get("files"):
                f["turn"] = 0
                case["files"] = {"state_a1.json": STORE_STATE_SNAPSHOT}
        return case

    # -- running ---------------------------------------------------------------------------------
    def _run(self, case: dict, faults: List[dict], cfg_off: Optional[Dict[int, dict]], idle: Dict[int, Dict[str, dict]],
             files: Optional[dict]) -> List[TR.Run]:
        ctx: Ctx = self.ctx  # type: ignore[attr-defined]
        spec = copy.deepcopy(case["spec"])
        if files:
            sf = {}
            for name, content in files.items():
                if name.endswith("/"):
                    continue
                sf[name] = content
            spec["snap_files"] = sf
        w = TR.build_world(ctx.tmpdir("w"), spec)
        if files:
            for name in files:
                if name.endswith("/"):
                    (w.snap_dir / name.rstrip("/")).mkdir(exist_ok=True)
        runs = []
        cfg_on = w.cfg
        for t, text in enumerate(case["texts"]):
            # "switched off" means switched off for the turn in which the fault is injected
            off_t = (cfg_off or {}).get(t)
            w.cfg = TR.to_attrdict(TR.deep_merge(w.cfg_plain, off_t)) if off_t else cfg_on
            beh: Dict[str, dict] = {"deliberate": TR.stub(PLAN)}
            for f in faults:
                if f["turn"] == t:
                    extra = REAL_SITES.get(f["site"], {}).get("with") or {}
                    beh.update(copy.deepcopy(extra))
                    rig = REAL_SITES.get(f["site"], {}).get("rig")
                    if REAL_SITES.get(f["site"], {}).get("shape"):
                        beh["store_hook_export"] = {"mode": "shape", "how": f.get("how", "deep_list")}
                    elif rig:
                        beh[rig[0]] = dict(rig[1])
                    else:
                        beh[f["site"]] = TR.fault(f["site"], f["exc"], 0 if f["site"].startswith("gel_apply") else None)
            beh.update(idle.get(t, {}))
            runs.append(TR.run_turn(w, text, t + 1, beh))
        return runs

    def impl(self, case: dict) -> Any:
        faults = case["faults"]
        cfg_off: Dict[int, dict] = {}
        idle: Dict[int, Dict[str, dict]] = {}
        for f in faults:
            meta = REAL_SITES.get(f["site"]) or {}
            if meta.get("base") == "cfg":
                cfg_off[f["turn"]] = TR.deep_merge(cfg_off.get(f["turn"], {}), meta["off"])
            elif meta.get("base") == "stub":
                idle.setdefault(f["turn"], {})[f["site"]] = meta["idle"]
        ignore = [k for f in faults for k in (REAL_SITES.get(f["site"]) or {}).get("ignore", [])]

        def canon(r: TR.Run) -> dict:
            c = r.canon()
            for rec in c["logs"].get("t2", []):
                for k in ignore:
                    rec.pop(k, None)
            return c
        def pstate(r: TR.Run) -> dict:
            # post-turn state the property's "equal to the off/idle run" is also checked on
            return {k: r.state.get(k) for k in ("version_etag", "store_w", "gel")}
        fr = self._run(case, faults, None, {}, case.get("files"))
        out: Dict[str, Any] = {
            "raised": [r.raised for r in fr], "hits": [r.fault_hits for r in fr],
            "canon": [canon(r) for r in fr],
            "state": [pstate(r) for r in fr],
            "boot": [dict(i) for r in fr for (s, i) in r.calls if s == "boot_load"],
        }
        loaded = any(b.get("loaded") for b in out["boot"])
        out["loaded"] = loaded
        if case.get("files") and loaded:
            out["baseline"] = None       # the loader accepted the file: no failure to compare against
        else:
            br = self._run(case, [], cfg_off, idle, None)
            out["baseline"] = [canon(r) for r in br]
            out["baseline_state"] = [pstate(r) for r in br]
            if any((REAL_SITES.get(f["site"]) or {}).get("patch") for f in faults):
                out["baseline_state"] = None      # a store refusing every call legitimately leaves other weights
            for f in faults:
                if (REAL_SITES.get(f["site"]) or {}).get("patch") == "apply_zero" and f["turn"] < len(out["baseline"]):
                    for rec in out["baseline"][f["turn"]]["logs"].get("apply", []):
                        rec["applied"], rec["clamps"] = 0, 0
            out["baseline_raised"] = [r.raised for r in br]
        return out

    def request(self, case: dict) -> dict:
        return {"c": "turn.guards"}

    def compare(self, case, impl_out, model_out) -> Optional[str]:
        # the declared sites of the model must all be protected according to the generated table
        if isinstance(model_out, dict) and "guards" in model_out:
            bad = [s for s in model_out["declared"] if not model_out["guards"].get(s)]
            if bad:
                return f"declared sites unprotected in the current source: {bad}"
            return None
        return f"driver: {json.dumps(model_out)[:200]}"

    def monitors(self, case, io):
        res = []
        ok = all(r is None for r in io["raised"])
        res.append(("turn_completes", ok, f"run_turn raised {io['raised']} with faults {case['faults']} garbage={case.get('garbage')}"))
        if ok and io.get("baseline") is not None and all(r is None for r in io.get("baseline_raised", [])):
            d = None if _canon(io["canon"]) == _canon(io["baseline"]) else first_diff(_canon(io["canon"]), _canon(io["baseline"]))
            # deterministic class of a failure (used as the known-finding key)
            cls = "canonical_equal_off_or_idle"
            if d is not None and any(f["site"] == "quality_mmr" for f in case["faults"]) and "t2q." in d:
                cls += ":mmr_failure_drops_fusion_metrics"
            res.append((cls, d is None,
                        f"T1/T2/T4/apply/turn records or result differ from the off/idle baseline: {d}; faults {case['faults']} garbage={case.get('garbage')}"))
            if io.get("baseline_state") is not None:
                a, b = _canon(io["state"]), _canon(io["baseline_state"])
                ds = None if a == b else first_diff(a, b)
                res.append(("state_equal_off_or_idle", ds is None,
                            f"post-turn state (version_etag / store weights / GEL edges) differs from the off/idle baseline "
                            f"(for a snapshot file the loader did not load: the empty-snapshot-dir run): {ds}; "
                            f"faults {case['faults']} garbage={case.get('garbage')} files={list((case.get('files') or {}).keys())}"))
        return res

    def tags(self, case, io):
        t = set()
        for h in io["hits"]:
            for s in h:
                t.add("hit:" + s)
        if case.get("garbage"):
            t.add("garbage:" + case["garbage"] + (":loaded" if io.get("loaded") else ":rejected"))
        if len([s for h in io["hits"] for s in h]) >= 2:
            t.add("multi")
        return sorted(t) or ["default"]

    def shrink(self, case):
        fs = case["faults"]
        for i in range(len(fs)):
            yield dict(case, faults=fs[:i] + fs[i + 1:])
        if len(case["texts"]) > 1:
            for f in fs:
                if f["turn"] != 0:
                    return
            yield dict(case, texts=case["texts"][:1])


# ---------------------------------------------------------------------------------------------
# (b) scripted stubs on the real run_turn vs the Lean skeleton
# ---------------------------------------------------------------------------------------------
MODEL_SITES = ["bootLoad", "t1", "t2", "gelObserve", "deliberate", "rag", "t3Trace", "adapterBuild", "speak", "t4",
               "gelTick", "gelMergeCand", "gelApplyMerge", "gelSplitCand", "gelApplySplit", "gelPromote", "gelApplyPromo",
               "storeBatch", "storeOne", "cacheInvalidate", "snapshotBody", "sidecarWrite",
               "reflectRun", "reflectCompute", "reflectWrite", "reflectLog", "health"]
DECLARED = ["bootLoad", "gelObserve", "gelTick", "gelMergeCand", "gelApplyMerge", "gelSplitCand", "gelApplySplit", "gelPromote", "gelApplyPromo",
            "reflectRun", "reflectCompute", "reflectWrite", "reflectLog", "adapterBuild", "t3Trace",
            "cacheInvalidate", "storeBatch", "storeOne", "sidecarWrite"]
RIG2MODEL = {"boot_load": "bootLoad", "t1": "t1", "t2": "t2", "gel_observe": "gelObserve", "deliberate": "deliberate",
             "rag": "rag", "t3_trace": "t3Trace", "adapter_build": "adapterBuild", "speak": "speak", "llm_speak": "speak",
             "dialogue": "speak", "t4": "t4", "gel_tick": "gelTick", "gel_merge_candidates": "gelMergeCand",
             "gel_apply_merge": "gelApplyMerge", "gel_split_candidates": "gelSplitCand", "gel_apply_split": "gelApplySplit",
             "gel_promote_clusters": "gelPromote", "gel_apply_promotion": "gelApplyPromo",
             "cache_invalidate": "cacheInvalidate", "write_snapshot": "snapshotBody", "sidecar_write": "sidecarWrite",
             "reflect_run": "reflectRun", "reflect": "reflectCompute", "reflect_write": "reflectWrite",
             "reflect_log": "reflectLog", "health": "health"}
REASONS = {"WALL_MS": 1, "BUDGET_T1_ITERS": 2, "BUDGET_T1_POPS": 3, "BUDGET_T2_K": 4, "BUDGET_T3_OPS": 5, "QUANTUM_EXCEEDED": 6}
STAGE_END = {"T1": 1, "T2": 2, "T3": 3, "T4": 4, "Apply": 5}


class Skeleton(Component):
    name = "turn"
    budget = {"quick": 250, "thorough": 6000, "search": 1200}

    def gen(self, rng: random.Random, i: int) -> dict:
        b = lambda p=0.5: rng.random() < p  # noqa: E731
        g = {"cacheEnabled": b(0.7), "graphEnabled": b(0.6), "doMerge": b(), "doSplit": b(), "doPromo": b(),
             "capMerge": rng.choice([0, 1, 2, 4]), "capSplit": rng.choice([1, 2, 4]), "capPromo": rng.choice([1, 2]),
             "t3Enabled": b(0.85), "t4Enabled": b(0.85), "dryRun": b(0.1), "ragAllowed": b(0.7), "backendLlm": b(),
             "dialoguePatched": b(0.15), "allowReflection": b(0.7), "bustOnApply": b(0.6), "namespaces": rng.choice([1, 2]),
             "every": rng.choice([1, 1, 2]), "storeKind": rng.choice(["ok", "ok", "ok", "none", "noFn"]),
             "inputBlank": b(0.2), "sched": rng.choice(["off", "off", "off", "idle", "wall0", "t1_iters", "t2_k", "t3_ops"]),
             "snap_ver": rng.choice([None, None, 5, "junk"]), "plannerFlag": b(0.15)}
        turns = []
        for t in range(rng.choice([1, 2, 2])):
            n_appr = rng.choice([0, 1, 2, 3])
            sc = {"t1": {"tok": rng.randrange(1, 50), "pops": rng.choice([None, 0, 3]), "iters": rng.choice([None, 1, 2]), "graphs": rng.choice([None, 1])},
                  "t2": {"tok": rng.randrange(1, 50), "kRet": rng.choice([None, 0, 2]), "kUsed": rng.choice([None, 1, 2]), "n": rng.choice([0, 1, 2])},
                  "plan": {"tok": 0, "nOps": rng.choice([1, 2, 3]), "wantsRetrieve": b(0.4), "reflection": b(0.7)},
                  "utter": rng.choice([None, 3, 7]),
                  "t4": {"tok": rng.randrange(1, 50), "approved": list(range(1, n_appr + 1)), "rejected": rng.choice([0, 1])},
                  "merge": rng.choice([0, 1, 3]), "split": rng.choice([0, 2]), "promo": rng.choice([0, 1, 3]),
                  "reflect": {"entries": rng.choice([0, 1, 2]), "summaryLen": rng.choice([0, 3])},
                  "text": rng.choice([0, 0, 1]), "faults": {}}
            r = rng.random()
            nf = 0 if r < 0.15 else (1 if r < 0.5 else (2 if r < 0.8 else rng.choice([3, 5])))
            pool = DECLARED if rng.random() < 0.8 else MODEL_SITES
            for s in rng.sample(pool, min(nf, len(pool))):
                f: Dict[str, Any] = {"exc": pick_exc(rng)}
                if s in ("gelApplyMerge", "gelApplySplit", "gelApplyPromo", "cacheInvalidate"):
                    f["at"] = rng.choice([0, 0, 1])
                sc["faults"][s] = f
            turns.append(sc)
        return {"gates": g, "turns": turns}

    # -- real side -----------------------------------------------------------------------------------
    @staticmethod
    def _cfg(g: dict, turns: List[dict]) -> dict:
        big = 10 ** 9
        sched: Dict[str, Any] = {"enabled": g["sched"] != "off", "quantum_ms": big,
                                 "budgets": {"ops_reflection": 2, "t1_pops": big, "t1_iters": big, "t2_k": big, "t3_ops": big, "wall_ms": big}}
        t0 = turns[0]
        if g["sched"] == "wall0":
            sched["budgets"]["wall_ms"] = 0
        elif g["sched"] == "t1_iters" and t0["t1"]["iters"] is not None:
            sched["budgets"]["t1_iters"] = t0["t1"]["iters"]
        elif g["sched"] == "t2_k" and t0["t2"]["kUsed"] is not None:
            sched["budgets"]["t2_k"] = t0["t2"]["kUsed"]
        elif g["sched"] == "t3_ops":
            sched["budgets"]["t3_ops"] = t0["plan"]["nOps"]
        return {
            "graph": {"enabled": g["graphEnabled"], "merge": {"enabled": g["doMerge"], "cap_per_turn": g["capMerge"]},
                      "split": {"enabled": g["doSplit"], "cap_per_turn": g["capSplit"]},
                      "promotion": {"enabled": g["doPromo"], "cap_per_turn": g["capPromo"]}},
            "t3": {"enabled": g["t3Enabled"], "max_rag_loops": 1 if g["ragAllowed"] else 0,
                   "backend": "llm" if g["backendLlm"] else "rulebased", "allow_reflection": g["allowReflection"],
                   "trace": {"enabled": True}},
            "perf": {"metrics": {"enabled": True}},
            "t4": {"enabled": g["t4Enabled"], "cache": {"enabled": g["cacheEnabled"], "namespaces": ["t2:semantic", "x:other"][: g["namespaces"]]},
                   "cache_bust_mode": "on-apply" if g["bustOnApply"] else "none", "snapshot_every_n_turns": g["every"]},
            "scheduler": sched,
        }

    def expected_yield(self, g: dict, sc: dict, turn_index: int) -> Dict[str, Any]:
        """the budgets the real `_should_yield` sees (the model evaluates them on what was consumed)"""
        t0 = self._t0
        if g["sched"] == "wall0":
            return {"wall0": True}
        if g["sched"] == "t1_iters" and t0["t1"]["iters"] is not None:
            return {"t1_iters": t0["t1"]["iters"]}
        if g["sched"] == "t2_k" and t0["t2"]["kUsed"] is not None:
            return {"t2_k": t0["t2"]["kUsed"]}
        if g["sched"] == "t3_ops":
            return {"t3_ops": t0["plan"]["nOps"]}
        return {}

    IDLEABLE = {"gelObserve", "gelTick", "bootLoad", "adapterBuild", "t3Trace", "reflectCompute", "reflectWrite", "reflectLog", "sidecarWrite",
                "storeBatch", "gelMergeCand", "gelApplyMerge", "gelSplitCand", "gelApplySplit", "gelPromote", "gelApplyPromo"}
    GELBLOCK = {"gelMergeCand", "gelApplyMerge", "gelSplitCand", "gelApplySplit", "gelPromote", "gelApplyPromo"}

    def _behaviours(self, g: dict, sc: dict, idle: bool = False) -> Dict[str, dict]:
        F = sc["faults"]
        if idle:
            # the run in which the failing subsystems are idle: nothing loaded at boot, no adapter, reflection
            # produces nothing, GEL maintenance finds nothing to do, store/sidecar/trace/telemetry simply work
            sc = copy.deepcopy(sc)
            if "reflectCompute" in F:
                sc["reflect"] = {"entries": 0, "summaryLen": 0}
            if set(F) & self.GELBLOCK:
                sc["merge"] = sc["split"] = sc["promo"] = 0
            boot_idle = "bootLoad" in F
            F = {}
            sc["faults"] = {}

        def site(model_site: str, rig_site: str, ret: Any, nth_key: bool = False) -> Tuple[str, dict]:
            f = F.get(model_site)
            if f is None:
                return rig_site, TR.stub(ret)
            if nth_key:
                return rig_site, TR.stub(ret, raise_nth=f.get("at", 0), exc=f["exc"])
            return rig_site, TR.fault(rig_site, f["exc"])
        p = sc["plan"]
        ops = [{"kind": "Speak"}] * (p["nOps"] - (1 if p["wantsRetrieve"] else 0)) + ([{"kind": "RequestRetrieve", "query": "q"}] if p["wantsRetrieve"] else [])
        plan_spec = {"ops": ops, "reflection": p["reflection"]}
        utter = "" if sc["utter"] is None else f"U{sc['utter']}"
        t1m = {"tok": sc["t1"]["tok"]}
        for k, kk in (("pops", "pops"), ("iters", "iters"), ("graphs", "graphs_touched")):
            if sc["t1"][k] is not None:
                t1m[kk] = sc["t1"][k]
        t2m = {"tok": sc["t2"]["tok"]}
        for k, kk in (("kRet", "k_returned"), ("kUsed", "k_used")):
            if sc["t2"][k] is not None:
                t2m[kk] = sc["t2"][k]
        items = [
            site("t1", "t1", {"metrics": t1m}),
            site("t2", "t2", {"metrics": t2m, "retrieved": [{"id": f"e{j}", "score": 0.5, "text": "w"} for j in range(sc["t2"]["n"])]}),
            site("gelObserve", "gel_observe", {"event": 1, "tok": 0}),
            site("deliberate", "deliberate", plan_spec),
            site("rag", "rag", {"plan": plan_spec, "metrics": {"rag_used": True}}),
            site("adapterBuild", "adapter_build", None),
            site("speak", "speak", {"utter": utter, "metrics": {"tokens": 1}}),
            site("speak", "llm_speak", {"utter": utter, "metrics": {"tokens": 1}}),
            site("t4", "t4", {"approved": [["node", f"n:{d}", "weight", 0.1] for d in sc["t4"]["approved"]],
                              "rejected": [["Speak", j] for j in range(sc["t4"]["rejected"])], "metrics": {"tok": sc["t4"]["tok"]}}),
            site("gelTick", "gel_tick", {"event": 2, "tok": 0}),
            site("gelMergeCand", "gel_merge_candidates", [{"i": j} for j in range(sc["merge"])]),
            site("gelApplyMerge", "gel_apply_merge", {}, True),
            site("gelSplitCand", "gel_split_candidates", [{"i": j} for j in range(sc["split"])]),
            site("gelApplySplit", "gel_apply_split", {}, True),
            site("gelPromote", "gel_promote_clusters", [{"i": j} for j in range(sc["promo"])]),
            site("gelApplyPromo", "gel_apply_promotion", {}, True),
            site("reflectCompute", "reflect", {"summary": " ".join(["w"] * sc["reflect"]["summaryLen"]),
                                               "entries": [{"text": f"r{j}"} for j in range(sc["reflect"]["entries"])]}),
            site("reflectWrite", "reflect_write", {"noted": 1}),
        ]
        beh = dict(items)
        if g["dialoguePatched"]:
            k, v = site("speak", "dialogue", {"utter": utter, "metrics": {"tokens": 1}})
            beh[k] = v
        for ms, rs in (("reflectRun", "reflect_run"), ("reflectLog", "reflect_log"), ("health", "health"),
                       ("sidecarWrite", "sidecar_write"), ("snapshotBody", "write_snapshot"),
                       ("storeBatch", "store_apply_batch"), ("storeOne", "store_apply_each"), ("t3Trace", "t3_trace_logs")):
            if ms in F:
                beh[rs] = TR.fault(rs, F[ms]["exc"])
        if "cacheInvalidate" in F:
            beh["cache_invalidate"] = TR.fault("cache_invalidate", F["cacheInvalidate"]["exc"], F["cacheInvalidate"].get("at", 0))
        if "bootLoad" in F:
            beh["boot_load"] = TR.fault("boot_load", F["bootLoad"]["exc"])
        if idle and boot_idle:
            beh["boot_load"] = TR.stub({"loaded": False})
        return beh

    @staticmethod
    def _proj(stream: str, r: dict) -> Optional[list]:
        g = r.get
        if stream == "t1":
            return ["t1", {"tok": g("tok")}]
        if stream == "t2":
            d = {"tok": g("tok")}
            if "cache_hit" in r:
                d["cache_hit"] = g("cache_hit")
                d["cache_size"] = g("cache_size")
            return ["t2", d]
        if stream == "gel":
            if "merge_attempts" in r:
                return ["gel", {k: g(k) for k in ("merge_attempts", "merge_applied", "split_attempts", "split_applied", "promotion_applied")}]
            return ["gel", {"event": g("event"), "tok": g("tok")}]
        if stream == "t3":
            code = {"rulebased": 0, "llm": 1, "patched": 2}.get(g("backend"), 9)
            return ["t3", {"backend": code, "fallback": bool(g("backend_fallback")), "n_ops": sum((g("ops_counts") or {}).values()),
                           "rag": bool(g("rag_used"))}]
        if stream == "t3_plan":
            return ["t3_plan", {"n_ops": sum((g("ops_counts") or {}).values()), "reflection": bool(g("reflection"))}]
        if stream == "t3_dialogue":
            return ["t3_dialogue", {"backend": {"rulebased": 0, "llm": 1, "patched": 2}.get(g("backend"), 9)}]
        if stream == "t4":
            return ["t4", {"tok": g("tok"), "approved": g("approved"), "rejected": g("rejected")}]
        if stream == "apply":
            v = g("version_etag")
            try:
                v = int(v)
            except Exception:
                v = "junk" if v is not None else None
            return ["apply", {"applied": g("applied"), "clamps": g("clamps"), "version_etag": v,
                              "snapshot": g("snapshot") is not None, "cache_invalidations": g("cache_invalidations")}]
        if stream == "scheduler":
            return ["scheduler", {"reason": REASONS.get(g("reason"), 0), "stage_end": STAGE_END.get(g("stage_end"), 0)}]
        if stream == "turn":
            t1, t2, t4 = g("t1") or {}, g("t2") or {}, g("t4") or {}
            d = {"pops": t1.get("pops"), "iters": t1.get("iters"), "graphs": t1.get("graphs_touched"),
                 "k_returned": t2.get("k_returned"), "k_used": t2.get("k_used"), "cache_hit": bool(t2.get("cache_hit", False)),
                 "approved": t4.get("approved", 0), "rejected": t4.get("rejected", 0)}
            return ["turn", d]   # (`yielded`/`slice_idx` are stripped by the repo's identity normalisation under CI)
        if stream == "t3_reflection":
            return None   # written by the telemetry subsystem itself (a parameter of the skeleton)
        if stream == "health":
            return ["health", {}]
        if stream == "t3_filter":
            return None
        return [stream, {"?": True}]

    def impl(self, case: dict) -> Any:
        out = self._impl(case, False)
        if all(set(sc["faults"]) <= self.IDLEABLE for sc in case["turns"]) and any(sc["faults"] for sc in case["turns"]):
            idle = self._impl(case, True)
            for r, ri in zip(out, idle):
                r["idle"] = {"raised": ri["raised"], "line": ri.get("line"), "state": ri.get("state"),
                             "logs": [l for l in ri.get("logs", []) if l[0] in TR.CANON_STREAMS]}
        return out

    def _impl(self, case: dict, idle: bool) -> Any:
        ctx: Ctx = self.ctx  # type: ignore[attr-defined]
        g, turns = case["gates"], case["turns"]
        self._t0 = turns[0]
        spec: Dict[str, Any] = {"cfg": self._cfg(g, turns), "store": {"ok": "rig", "none": "none", "noFn": "nofn"}[g["storeKind"]],
                                "logs_list": "plain"}
        if g["dryRun"]:
            spec["ctx_extra"] = {"_dry_run_until_t4": True}
        if g["plannerFlag"]:
            spec["state_extra"] = {"_planner_reflection_flag": True}
        if g["snap_ver"] is not None:
            v = "x7" if g["snap_ver"] == "junk" else str(g["snap_ver"])
            spec["snap_files"] = {"state_a1.json": json.dumps({"version_etag": v, "schema_version": "v1"})}
        w = TR.build_world(ctx.tmpdir("s"), spec)
        out = []
        for t, sc in enumerate(turns):
            text = "" if g["inputBlank"] else f"text{sc['text']}"
            r = TR.run_turn(w, text, t + 1, self._behaviours(g, sc, idle))
            rec: Dict[str, Any] = {"raised": None if r.raised is None else r.raised["type"], "hits": r.fault_hits}
            if r.raised is None:
                line = r.result["line"]
                if line == "":
                    ln: Any = "empty"
                elif line == "…":
                    ln = "ellipsis"
                elif line.startswith("U") and line[1:].isdigit():
                    ln = {"utter": int(line[1:])}
                else:
                    ln = "input"
                rec["line"] = ln
                rec["logs"] = [p for p in (self._proj(s, x) for s, x in r.emitted) if p is not None]
                calls = [RIG2MODEL[s] for s, _ in r.calls if s in RIG2MODEL]
                rec["calls"] = calls
                rec["n_store"] = len([1 for s, _ in r.calls if s == "store_apply_deltas"])
                v = r.state["version_etag"]
                try:
                    v = int(v)
                except Exception:
                    v = "junk" if v is not None else None
                rec["state"] = {"ver": v, "bootLoaded": r.state["boot_loaded"], "adapter": w.state.get("llm_adapter") is not None}
            out.append(rec)
            if r.raised is not None:
                break
        return out

    # -- model side ----------------------------------------------------------------------------------
    def _model_turn(self, g: dict, sc: dict, t: int) -> dict:
        F = sc["faults"]
        code = lambda s: {"err": exc_code(F[s]["exc"])}  # noqa: E731
        env: Dict[str, Any] = {}
        if t == 0:
            if "bootLoad" in F:
                env["bootLoad"] = code("bootLoad")
            elif g["snap_ver"] is not None:
                env["bootLoad"] = {"ver": g["snap_ver"]}
        for k in ("t1", "t2", "t4"):
            env[k] = code(k) if k in F else sc[k]
        env["deliberate"] = code("deliberate") if "deliberate" in F else sc["plan"]
        env["rag"] = code("rag") if "rag" in F else {}
        env["speak"] = code("speak") if "speak" in F else {"ok": sc["utter"]}
        for ms, key, val in (("gelObserve", "gelObserve", {"ok": 0}), ("gelTick", "gelTick", {"ok": 0}),
                             ("gelMergeCand", "mergeCand", {"ok": sc["merge"]}), ("gelSplitCand", "splitCand", {"ok": sc["split"]}),
                             ("gelPromote", "promote", {"ok": sc["promo"]}), ("adapterBuild", "adapterBuild", {"ok": False}),
                             ("t3Trace", "t3Trace", {}), ("snapshotBody", "snapBody", {}), ("sidecarWrite", "sidecar", {}),
                             ("reflectCompute", "reflect", sc["reflect"]), ("reflectWrite", "reflectWrite", {"ok": 0}),
                             ("reflectLog", "reflectLog", {}), ("health", "health", {}), ("reflectRun", "reflectRun", {}),
                             ("storeBatch", "storeBatch", {})):
            env[key] = code(ms) if ms in F else val
        for ms, key in (("gelApplyMerge", "applyMerge"), ("gelApplySplit", "applySplit"), ("gelApplyPromo", "applyPromo"),
                        ("cacheInvalidate", "invalidate")):
            if ms in F:
                env[key] = {"at": F[ms].get("at", 0), "exc": code(ms)["err"]}
        if "storeOne" in F:
            env["storeOne"] = {"errs": {str(d): code("storeOne")["err"] for d in sc["t4"]["approved"]}}
        env["yieldAt"] = self.expected_yield(g, sc, t)
        cfg = {k: g[k] for k in ("cacheEnabled", "graphEnabled", "doMerge", "doSplit", "doPromo", "capMerge", "capSplit", "capPromo",
                                 "t3Enabled", "t4Enabled", "dryRun", "ragAllowed", "backendLlm", "dialoguePatched",
                                 "allowReflection", "bustOnApply", "namespaces", "storeKind", "inputBlank")}
        cfg["schedEnabled"] = g["sched"] != "off"
        cfg["snapshotDue"] = ((t + 1) % g["every"]) == 0
        cfg["textId"] = 0 if g["inputBlank"] else sc["text"]
        return {"cfg": cfg, "env": env}

    def request(self, case: dict) -> dict:
        self._t0 = case["turns"][0]
        return {"c": "turn.seq", "st": {"ver": 0, "plannerFlag": case["gates"]["plannerFlag"]},
                "turns": [self._model_turn(case["gates"], sc, t) for t, sc in enumerate(case["turns"])]}

    def compare(self, case, impl_out, model_out) -> Optional[str]:
        if not isinstance(model_out, list):
            return f"driver: {json.dumps(model_out)[:300]}"
        if isinstance(impl_out, dict) and "__raised__" in impl_out:
            return f"rig raised {impl_out}"
        for t, io in enumerate(impl_out):
            if t >= len(model_out):
                return f"turn {t}: model stopped early"
            mo = model_out[t]["out"]
            if io["raised"] is not None or "raised" in mo:
                if (io["raised"] is None) != ("raised" not in mo):
                    return f"turn {t}: impl raised={io['raised']} model raised={mo.get('raised')}"
                if io["raised"] is not None:
                    exp = EXCS[mo["raised"] - 100] if 100 <= mo["raised"] < 100 + len(EXCS) else "?"
                    if exp != io["raised"]:
                        return f"turn {t}: impl raised {io['raised']}, model predicts {exp}"
                return None
            ms = mo["state"]
            mlogs = [l for l in mo["logs"]]
            for l in mlogs:
                if l[0] == "turn":
                    l[1].pop("yielded", None)
            canon_of = lambda logs: [l for l in logs if l[0] in TR.CANON_STREAMS]  # noqa: E731
            # deciding: result line, canonical T1/T2/T4/apply/turn records, call sequence, state
            a = {"line": io["line"], "logs": canon_of(io["logs"]), "calls": [c for c in io["calls"]], "state": io["state"]}
            b = {"line": mo["line"], "logs": canon_of(mlogs),
                 "calls": [c for c in mo["calls"] if c not in ("storeBatch", "storeOne")],
                 "state": {"ver": ms["ver"], "bootLoaded": ms["bootLoaded"], "adapter": ms["adapter"]}}
            if _canon(a) != _canon(b):
                return f"turn {t}: " + first_diff(_canon(a), _canon(b))
            # diagnostic only (streams the property does not talk about: gel, t3*, scheduler, health)
            if _canon(io["logs"]) != _canon(mlogs):
                self.ctx.mismatch(self.name + ".noncanonical", case,  # type: ignore[attr-defined]
                                  f"turn {t}: " + first_diff(_canon(io["logs"]), _canon(mlogs)), io, mo, deciding=False)
            n_store_model = len([c for c in mo["calls"] if c in ("storeBatch", "storeOne")])
            if n_store_model != io["n_store"]:
                return f"turn {t}: store calls impl={io['n_store']} model={n_store_model}"
        return None

    def monitors(self, case, io):
        res = []
        only_declared = all(set(sc["faults"]) <= set(DECLARED) for sc in case["turns"])
        if only_declared:
            ok = all(r["raised"] is None for r in io)
            res.append(("stub_turn_completes", ok, f"run_turn raised {[r['raised'] for r in io]} although only declared fail-soft sites fail"))
        for t, r in enumerate(io):
            if "idle" in r and r["raised"] is None and r["idle"]["raised"] is None:
                a = {"line": r["line"], "state": r["state"], "logs": [l for l in r["logs"] if l[0] in TR.CANON_STREAMS]}
                b = {k: r["idle"][k] for k in ("line", "state", "logs")}
                d = None if _canon(a) == _canon(b) else first_diff(_canon(a), _canon(b))
                res.append(("stub_canonical_equal_idle", d is None,
                            f"turn {t}: result/canonical records/state of the real run_turn differ from the run with the failing subsystems idle: {d}; faults {case['turns'][t]['faults']}"))
        return res

    def tags(self, case, io):
        t = set()
        for r in io:
            for h in r["hits"]:
                t.add("hit:" + h)
            if r["raised"]:
                t.add("raised")
            for l in r.get("logs", []):
                if l[0] == "scheduler":
                    t.add("yield")
        return sorted(t) or ["default"]

    def shrink(self, case):
        ts = case["turns"]
        if len(ts) > 1:
            yield dict(case, turns=ts[:1])
        for i, sc in enumerate(ts):
            for s in list(sc["faults"]):
                sc2 = copy.deepcopy(sc)
                del sc2["faults"][s]
                yield dict(case, turns=ts[:i] + [sc2] + ts[i + 1:])


# ---------------------------------------------------------------------------------------------
# (c) the T2 quality layers: real `apply_quality` with scripted layers vs the Lean skeleton
# ---------------------------------------------------------------------------------------------
QLAYERS = ["rerank", "fuse", "mmr", "mmrFallback", "cfgSnap", "trace"]


class QualityLayers(Component):
    name = "quality"
    budget = {"quick": 400, "thorough": 8000, "search": 3000}

    def gen(self, rng: random.Random, i: int) -> dict:
        n = rng.choice([0, 1, 2, 3, 4])
        ids = rng.sample(range(1, 9), n)
        pool = ids + [9, 10]

        def lst():
            k = rng.choice([0, 1, 2, 3, 4])
            return [rng.choice(pool) for _ in range(k)] if pool else []
        b = lambda p=0.5: rng.random() < p  # noqa: E731
        cfg = {"hybridOn": b(0.6), "qualityOn": b(0.6), "mmrOn": b(0.6), "perf": b(0.8), "report": b(0.8), "shadow": b(0.8)}
        env: Dict[str, Any] = {"rerank": {"ok": (rng.sample(ids, len(ids)) if b(0.7) else lst()), "used": b(0.7)},
                               "fuse": {"ok": (rng.sample(ids, len(ids)) if b(0.6) else lst())},
                               "mmr": {"ok": lst()}, "mmrFallback": {"ok": lst()}, "cfgSnap": {}, "trace": {}}
        r = rng.random()
        nf = 0 if r < 0.2 else (1 if r < 0.6 else (2 if r < 0.85 else rng.choice([3, 6])))
        faults = {s: pick_exc(rng) for s in rng.sample(QLAYERS, nf)}
        # a layer that returns instead of raising, but returns malformed items (failure INSIDE the layer's
        # consumer, after partial output): non-float scores, entries without id, None entries
        if rng.random() < 0.45:
            env["fuse"]["bad"] = rng.choice(["bad_score", "bad_score", "none_entry", "no_ids"])
            if env["fuse"]["bad"] == "no_ids":
                env["fuse"]["drop"] = sorted(rng.sample(range(len(env["fuse"]["ok"])), rng.randrange(0, len(env["fuse"]["ok"]) + 1)))
        for k in ("mmr", "mmrFallback"):
            if rng.random() < 0.25:
                env[k]["bad"] = rng.choice(["none_entry", "no_ids"])
                if env[k]["bad"] == "no_ids":
                    env[k]["drop"] = sorted(rng.sample(range(len(env[k]["ok"])), rng.randrange(0, len(env[k]["ok"]) + 1)))
        return {"cfg": cfg, "env": env, "faults": faults, "retrieved": ids}

    @staticmethod
    def _items(layer: dict, extra: Optional[dict] = None) -> list:
        """what the scripted layer returns: well-formed dict items, damaged as the script says"""
        out: list = []
        bad = layer.get("bad")
        for j, i in enumerate(layer["ok"]):
            it: Dict[str, Any] = {"id": f"e{i}"}
            it.update(extra or {})
            if bad == "bad_score":
                it["score_fused"] = ["n/a", [], {}, None, "1e"][j % 5]
            if bad == "no_ids" and j in layer.get("drop", []):
                it.pop("id")
            out.append(it)
        if bad == "none_entry":
            out.insert(len(out) // 2, None)
        return out

    @staticmethod
    def _model_layer(k: str, layer: dict) -> dict:
        """the same script in the model's terms: an entry without id is simply not picked; a None entry makes the
        consumer raise inside the layer's guard (= the layer failing), except in the MMR fallback where the flag is
        already set and nothing is applied (= an empty proposal); non-float scores only feed best-effort metadata"""
        bad = layer.get("bad")
        out = dict(layer)
        out.pop("bad", None)
        out.pop("drop", None)
        if bad == "no_ids":
            out["ok"] = [i for j, i in enumerate(layer["ok"]) if j not in layer.get("drop", [])]
        if bad == "none_entry":
            if k == "mmrFallback":
                out["ok"] = []
            elif k in ("fuse", "mmr"):
                return {"err": 199}
        return out

    @staticmethod
    def _call(case: dict, cfg_over: Optional[dict] = None, drop_fault: Optional[List[str]] = None) -> Any:
        import importlib
        from types import SimpleNamespace
        Q = importlib.import_module("clematis.engine.stages.t2.quality")
        QO = importlib.import_module("clematis.engine.stages.t2.quality_ops")
        cfg = dict(case["cfg"])
        cfg.update(cfg_over or {})
        faults = {k: v for k, v in case["faults"].items() if k not in (drop_fault or [])}
        env = case["env"]
        ref = lambda i: SimpleNamespace(id=f"e{i}", score=0.5, text=f"t{i}")  # noqa: E731
        calls: List[str] = []
        box: Dict[str, Any] = {"fused": None}

        def boom(site):
            calls.append(site + "!")
            raise TR.make_exc(faults[site])

        def rerank(ctx, state, items):
            calls.append("rerank")
            if "rerank" in faults:
                boom("rerank")
            cur = {r.id: r for r in items}
            return [cur.get(f"e{i}") or ref(i) for i in env["rerank"]["ok"]], {"hybrid_used": env["rerank"]["used"], "k_max": 3}

        def fuse(q_text, items, cfg=None):
            calls.append("fuse")
            if "fuse" in faults:
                boom("fuse")
            out = QualityLayers._items(env["fuse"], {"score_fused": 0.5})
            box["fused"] = out
            return out, {"alpha": 0.5}

        def mmr(items, qcfg):
            role = "mmr" if (box["fused"] is not None and items is box["fused"]) else "mmrFallback"
            calls.append(role)
            if role in faults:
                boom(role)
            return QualityLayers._items(env[role])

        def cfgsnap(cfg_root):
            calls.append("cfgSnap")
            if "cfgSnap" in faults:
                boom("cfgSnap")
            return {}

        def trace(cfg_snap, q_text, items, meta):
            calls.append("trace")
            if "trace" in faults:
                boom("trace")

        cfg_root = {"perf": {"enabled": cfg["perf"], "metrics": {"report_memory": cfg["report"]}},
                    "t2": {"quality": {"enabled": cfg["qualityOn"], "shadow": cfg["shadow"], "mmr": {"enabled": cfg["mmrOn"]}}}}
        cfg_t2 = {"hybrid": {"enabled": cfg["hybridOn"]}}
        saved = (Q.rerank_with_gel, QO.fuse, QO.maybe_apply_mmr, Q._emit_quality_trace, Q._quality_cfg_snapshot)
        Q.rerank_with_gel, QO.fuse, QO.maybe_apply_mmr, Q._emit_quality_trace, Q._quality_cfg_snapshot = rerank, fuse, mmr, trace, cfgsnap
        try:
            try:
                out = Q.apply_quality(SimpleNamespace(), {}, [ref(i) for i in case["retrieved"]], "q", cfg_root, cfg_t2)
                res: Dict[str, Any] = {"retrieved": [int(str(getattr(r, "id", "e0"))[1:]) for r in out[0]], "hybridUsed": bool(out[1]),
                                       "fusionUsed": bool(out[3]), "mmrUsed": bool(out[5]), "mmrN": int(out[6])}
            except Exception as e:
                res = {"raised": type(e).__name__}
        finally:
            Q.rerank_with_gel, QO.fuse, QO.maybe_apply_mmr, Q._emit_quality_trace, Q._quality_cfg_snapshot = saved
        res["calls"] = calls
        return res

    def impl(self, case: dict) -> Any:
        out = self._call(case)
        F = case["faults"]
        offs: Dict[str, Any] = {}
        if "rerank" in F:
            offs["rerank"] = self._call(case, {"hybridOn": False}, ["rerank"])
        if "fuse" in F:
            offs["fuse"] = self._call(case, {"qualityOn": False}, ["fuse"])
        if "cfgSnap" in F or "trace" in F:
            offs["trace"] = self._call(case, {"shadow": False}, ["cfgSnap", "trace"])
        if "mmr" in F and "mmrFallback" in F:
            offs["mmr"] = self._call(case, {"mmrOn": False}, ["mmr", "mmrFallback"])
        env0 = case["env"]
        if "mmr" in F or "mmrFallback" in F or env0["mmr"].get("bad") or env0["mmrFallback"].get("bad"):
            healthy = copy.deepcopy(case)
            for k in ("mmr", "mmrFallback"):
                healthy["faults"].pop(k, None)
                healthy["env"][k].pop("bad", None)
            offs["fusionflag"] = self._call(healthy)
        if case["env"]["fuse"].get("bad") == "bad_score" and "fuse" not in F:
            clean = copy.deepcopy(case)
            clean["env"]["fuse"].pop("bad")
            offs["badscore"] = self._call(clean)
        out["offs"] = offs
        return out

    def request(self, case: dict) -> dict:
        c = case["cfg"]
        env = {}
        for k in QLAYERS:
            env[k] = {"err": exc_code(case["faults"][k])} if k in case["faults"] else self._model_layer(k, case["env"][k])
        return {"c": "quality", "retrieved": case["retrieved"], "env": env,
                "cfg": {"hybridOn": c["hybridOn"], "qualityOn": c["qualityOn"], "mmrOn": c["mmrOn"],
                        "traceGate": bool(c["perf"] and c["report"] and c["shadow"] and not c["qualityOn"])}}

    def compare(self, case, io, mo) -> Optional[str]:
        if not isinstance(mo, dict):
            return f"driver: {json.dumps(mo)[:200]}"
        a = {k: v for k, v in io.items() if k not in ("calls", "offs")}
        if "raised" in mo:
            b: Dict[str, Any] = {"raised": EXCS[mo["raised"] - 100] if 100 <= mo["raised"] < 100 + len(EXCS) else "?"}
        else:
            b = mo
        return None if _canon(a) == _canon(b) else first_diff(_canon(a), _canon(b))

    def monitors(self, case, io):
        res = [("quality_never_raises", "raised" not in io, f"apply_quality raised {io.get('raised')} with layer faults {case['faults']}")]
        strip = lambda d: {k: v for k, v in d.items() if k not in ("calls", "offs")}  # noqa: E731
        for layer, off in io.get("offs", {}).items():
            if "raised" in io or "raised" in off:
                continue
            if layer == "fusionflag":
                res.append(("quality_fusion_flag_independent_of_mmr", io["fusionUsed"] == off["fusionUsed"],
                            f"whatever the MMR layers do (faults {case['faults']}), the fusion flag must be the one of the run with "
                            f"healthy MMR layers: got fusionUsed={io['fusionUsed']} (order {io['retrieved']}), healthy run {off['fusionUsed']}"))
                continue
            if layer == "badscore":
                res.append(("quality_bad_scores_eq_clean", strip(io) == strip(off),
                            f"apply_quality with non-float fused scores returned {strip(io)}; with well-formed scores {strip(off)} "
                            f"(the score map is best-effort metadata)"))
                continue
            res.append((f"quality_{layer}_fail_eq_off", strip(io) == strip(off),
                        f"apply_quality with failing {layer} returned {strip(io)}, with the layer switched off {strip(off)}"))
        if "raised" not in io:
            # whatever happened inside the layers: an ordering that differs from what entered the fusion block must be
            # accounted for by a flag (otherwise the t2 record describes neither the fault-free nor the off run)
            c, env = case["cfg"], case["env"]
            base = list(case["retrieved"])
            if c["hybridOn"] and "rerank" not in case["faults"]:
                base = list(env["rerank"]["ok"])
            if not io["fusionUsed"] and not io["mmrUsed"]:
                res.append(("quality_order_accounted", io["retrieved"] == base,
                            f"apply_quality reports fusion/MMR unused but returned order {io['retrieved']} instead of {base} "
                            f"(faults {case['faults']}, fuse script {env['fuse']})"))
        return res

    def tags(self, case, io):
        t = {"hit:" + c[:-1] for c in io.get("calls", []) if c.endswith("!")}
        for k in ("fuse", "mmr", "mmrFallback"):
            if case["env"][k].get("bad") and k in io.get("calls", []):
                t.add(f"malformed:{k}:{case['env'][k]['bad']}")
        if io.get("fusionUsed"):
            t.add("fusion")
        if io.get("mmrUsed"):
            t.add("mmr")
        return sorted(t) or ["default"]

    def shrink(self, case):
        for s in list(case["faults"]):
            f = dict(case["faults"])
            del f[s]
            yield dict(case, faults=f)


# ---------------------------------------------------------------------------------------------
# (d) store hooks on the snapshot path: every export fault shape x cadence, enumerated
# ---------------------------------------------------------------------------------------------
class StoreExportShapes(Component):
    """The store section of a snapshot is best-effort.  Scripted stages, REAL apply_changes / write_snapshot, a store
    whose `export_state()` raises (every exception message shape) or returns something the writer cannot encode
    (every `TR.EXPORT_SHAPES`), on snapshot-cadence and non-cadence turns (every = 1, 2, 3; three turns).  Monitors
    only (no model request): every turn completes, and result + canonical records + weights equal the healthy-store
    run of the same script."""
    name = "store_export"
    monitors_only = True
    budget = {"quick": 2 * 3 * (len(TR.EXPORT_SHAPES) + len(VARIANTS)), "thorough": 1200, "search": 400}

    def gen(self, rng: random.Random, i: int) -> dict:
        modes = [("shape", h) for h in TR.EXPORT_SHAPES] + [("raise", f"{EXCS[(i + j) % len(EXCS)]}:{v}") for j, v in enumerate(VARIANTS)]
        mode = modes[i % len(modes)]
        every = [1, 3, 2][(i // len(modes)) % 3]
        return {"mode": list(mode), "every": every, "fault_turns": rng.choice([[0, 1, 2], [0, 1, 2], [2], [1]]),
                "n_deltas": rng.choice([1, 2, 3]), "bust": rng.random() < 0.5}

    def _run(self, case: dict, healthy: bool) -> List[dict]:
        ctx: Ctx = self.ctx  # type: ignore[attr-defined]
        spec = {"cfg": {"t4": {"snapshot_every_n_turns": case["every"], "cache_bust_mode": "on-apply" if case["bust"] else "none"}},
                "store_hooks": True, "boot_loaded": True}
        w = TR.build_world(ctx.tmpdir("x"), spec)
        out = []
        for t in range(3):
            beh = {"t1": TR.stub({"metrics": {"tok": t}}), "t2": TR.stub({"metrics": {"tok": 10 + t}, "retrieved": []}),
                   "deliberate": TR.stub({"ops": [{"kind": "Speak"}]}), "speak": TR.stub({"utter": f"U{t}", "metrics": {}}),
                   "t4": TR.stub({"approved": [["node", f"n:{t}{d}", "weight", 0.1] for d in range(case["n_deltas"])], "metrics": {"tok": 20 + t}})}
            if not healthy and t in case["fault_turns"]:
                kind, what = case["mode"]
                beh["store_hook_export"] = {"mode": "shape", "how": what} if kind == "shape" else TR.fault("store_hook_export", what)
            r = TR.run_turn(w, f"text{t}", t + 1, beh)
            out.append({"raised": r.raised, "canon": r.canon(), "store_w": r.state["store_w"], "ver": r.state["version_etag"],
                        "snap": sorted(f for f in (r.state["snap_files"] or []) if not f.endswith(".meta")), "hits": r.fault_hits})
            if r.raised is not None:
                break
        return out

    def impl(self, case: dict) -> Any:
        return {"faulty": self._run(case, False), "healthy": self._run(case, True)}

    def monitors(self, case, io):
        f, h = io["faulty"], io["healthy"]
        res = [("store_export_turn_completes", all(r["raised"] is None for r in f),
                f"run_turn raised {[r['raised'] for r in f]} with store.export_state() fault {case['mode']} on turns {case['fault_turns']} "
                f"(snapshot every {case['every']} turns)")]
        if all(r["raised"] is None for r in f) and all(r["raised"] is None for r in h):
            strip = lambda rs: [{k: v for k, v in r.items() if k != "hits"} for r in rs]  # noqa: E731
            a, b = _canon(strip(f)), _canon(strip(h))
            d = None if a == b else first_diff(a, b)
            res.append(("store_export_equal_healthy_store", d is None,
                        f"records / weights / version / snapshot files differ from the healthy-store run: {d}; fault {case['mode']}"))
        return res

    def tags(self, case, io):
        cadence = [((t + 1) % case["every"]) == 0 for t in range(3)]
        hit = any(r["hits"] for r in io["faulty"])
        return [f"{case['mode'][0]}:{case['mode'][1].split(':')[-1]}", "cadence_hit" if hit else "no_cadence_turn_faulted",
                f"every{case['every']}"] if True else ["default"]


COMPONENTS = [RealFaults(), Skeleton(), QualityLayers(), StoreExportShapes()]


def _run_comp(ctx: Ctx, comp: Component) -> None:
    """like core.run_component, with the idle-run monitor evaluated by Lean on the model side."""
    from harness.core import run_component
    comp.ctx = ctx  # type: ignore[attr-defined]
    run_component(ctx, comp, monitors_only=bool(getattr(comp, "monitors_only", False)))


def run(ctx: Ctx) -> None:
    for comp in COMPONENTS:
        _run_comp(ctx, comp)


def _decanon(x: Any) -> Any:
    """replay files store floats as {"f": bits} (core._canon): turn them back into floats"""
    from harness.core import b2f
    if isinstance(x, dict):
        if set(x) == {"f"} and isinstance(x["f"], str) and x["f"].isdigit():
            return b2f(x["f"])
        return {k: _decanon(v) for k, v in x.items()}
    if isinstance(x, list):
        return [_decanon(v) for v in x]
    return x


def replay(ctx: Ctx, rec: dict) -> int:
    from harness.core import generic_replay
    rec = _decanon(rec)
    for c in COMPONENTS:
        c.ctx = ctx  # type: ignore[attr-defined]
    return generic_replay(ctx, rec, {c.name: c for c in COMPONENTS})
