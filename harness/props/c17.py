"""C17 — scheduler core + yield decision: correspondence, Lean monitors, exhaustive small scope."""
from __future__ import annotations

import copy
import math
import random
import re
from typing import Any, Dict, List, Optional, Tuple

from harness.core import Component, Ctx, run_component, run_driver

RULE = ("selection/yield histories over agent-id alphabets with order traps (shared prefixes, case, digits, empty id, "
        "non-ASCII, duplicates), allowances {missing,0,1,2,3,5,-1,True}, aging {missing,0,<0,1,7,10,200}, clock advances "
        "{0,1,aging-1,aging,3*aging,-aging,big} (backwards included), both policies, rotation on/off per tick; every ctx clock shape _now_ms accepts (callable int/float/str/bool, raising, non-numeric, None, "
        "int/float FIELD, no attribute, ctx None) with each history run twice under two scripted process clocks and once against the documented clock; a stream of "
        "tick-only histories from init_scheduler_state (bound monitors apply), a mixed stream of free next/yield/rot ops, "
        "and a malformed stream (hand-made states with missing keys / counters above the allowance, bad config values); "
        "stage HISTORIES: 2-4 real t1_propagate / t2_semantic / run_turn calls on one world in one process with the process-global stage caches left warm, slice budgets absent/loose/tight/0 per call, caches on and off, the ctx fresh per turn or one long-lived object (cfg edited in place / replaced) judged against the budgets in force that turn, each call checked against its clamp and against the same call with the stage cache off; "
        "exhaustive DFS over all clock-advance histories of the real code for small scopes, compared with the model by "
        "leaf count, rolling hash of every (agent, reason) and maximal wait; budget/consumed maps boundary-biased around "
        "equality; one seeded PRNG per component; a case is non-trivial when it hits a non-default branch tag; distinct "
        "by canonical JSON")
ASSUMPTIONS = [
    "allowance max_consecutive_turns >= 1 for the starvation bound (the validator enforces it; Lean witness C17_Starvation_needs_positive_allowance shows it is needed)",
    "agent ids distinct for the bound (n = number of agents); duplicates are exercised for exactness and Pick only",
    "every selection is followed by on_yield for the selected agent with reset = (reason == RESET_CONSEC) (the property's own condition; C17_Starvation_needs_bookkeeping)",
    "config values reach next_turn/_derive_budgets through int(): modelled as missing / int / raises; the harness-side encoder enc_cfg maps bool, float, str, None explicitly",
    "budget and consumed maps handed to _should_yield hold ints (that is what _derive_budgets and run_turn construct)",
    "T1 slice budgets are non-negative for the total bound (C17_Budgets_bind_t1_pops/_iters); the T1 totals theorem is about Clem.T1.t1, the exact T1 model tied to t1_propagate by C12's correspondence (driver module HT1) and here by the threaded differential on the real code",
]
CLAIM = {
    "text": ("Unbounded Lean theorems about the executed model of clematis/engine/scheduler.py and the orchestrator's yield decision: "
             "next_turn refines the specification relation Pick (queued agent with allowance left, else lexicographically first + RESET) for both "
             "policies, every clock, aging and allowance; counters stay in [0, allowance] on every reachable state; for EVERY history of Pick-steps "
             "each followed by the real on_yield (any tie-breaking, any clocks, any queue permutation after each step) no agent waits more than "
             "2(n-1)m+1 selections (proved for the relation by a potential argument, transported to the exact model, tight for n=3,m=2) and every "
             "agent runs within the first (n-1)m+1 selections; _should_yield equals the precedence table wall > T1 iters > T1 pops > T2 k > T3 ops > quantum "
             "and is the unique answer satisfying it; _derive_budgets keeps exactly the configured keys. Tied to the code by op-by-op differential "
             "execution (compiled from the same definitions), by the Lean predicates pickB/isLeastB/gapsOkB/consecOkB/yieldSpecB evaluated on the "
             "real code's outputs, and by exhaustive exploration of all clock histories of the real code in small scopes."),
    "note": ("Trusted: Lean kernel + propext/Classical.choice/Quot.sound; the harness incl. enc_cfg; CPython str ordering = code-point lexicographic order. "
             "run_turn itself is not modelled line by line: its yield behaviour is tied to the Lean skeleton firstYield (C17_Turn_yield_first_boundary, "
             "C17_Turn_no_yield_iff) by running the REAL run_turn with stubbed stage counters and a scripted time.perf_counter and letting Lean judge the "
             "observed (stage_end, reason, consumed) and the record order; stage-side clamps (t1 pops/layers per graph, t2 k_used, t3 ops) are covered by "
             "correspondence only (monitors on the real t1_propagate / t2_semantic / deliberate / repeated real turns). "
             "Holds for the tree WITH proposed_fixes/C17_t2_cache_key_slice_cap.diff (on the pinned tree the T2 stage cache and the turn-level T2 cache serve "
             "results computed under another t2_k: k_used exceeds the slice budget; corpus/C17 keeps the failing inputs). Slice budgets t1_pops / t1_iters bind the TOTALS t1_propagate reports (the quantities _should_yield tests): every active graph runs under what the "
             "earlier graphs left (C17_Budgets_bind_t1_pops, C17_Budgets_bind_t1_iters on the exact T1 model; C17_Per_graph_clamp_alone_insufficient records why the "
             "per-graph clamp of the pinned tree was not enough; holds WITH proposed_fixes/C17_t1_slice_budget_shared_across_graphs.diff, corpus/C17/stage.t1__total_* keep the failing inputs). The decision depends on measured elapsed time by design (C17_Yield_depends_on_elapsed). "
             "Not covered: duplicate agent ids for the bound (exactness and Pick only), float/None values inside the budgets map handed to _should_yield."),
    "technique": "Lean 4 proofs (potential-function induction over arbitrary histories of a nondeterministic spec relation + refinement of the exact model) + exact correspondence and Lean-evaluated monitors on the Python implementation",
    "design_ref": "DESIGN.md §4 C17",
}
DRIVER_MODULES = ['HSched']
TABLES = []
MODELLED = {
    "clematis/engine/scheduler.py": ["init_scheduler_state", "next_turn", "on_yield", "_now_ms"],
    "clematis/engine/orchestrator/core.py": ["_should_yield", "_derive_budgets"],
}
TRUSTED = ["modelled, not verified: CPython int()/str comparison/dict semantics; harness-side enc_cfg (explicit re-statement of int() on bool/float/str/None)",
           "run_turn boundary behaviour and stage-side clamps: monitors on the real code only (no Lean model)"]

MAXI = 10 ** 9
MISSING = {"missing": True}


# --------------------------------------------------------------------------
# encoding helpers
# --------------------------------------------------------------------------

def cp(s: str) -> List[int]:
    return [ord(c) for c in s]


def raw_of(spec: Any) -> Tuple[bool, Any]:
    """case-level value spec -> (present, python value)."""
    if isinstance(spec, dict):
        if spec.get("missing"):
            return False, None
        if "float" in spec:
            return True, float(spec["float"])
        if "none" in spec:
            return True, None
    return True, spec


_INT_RE = re.compile(r"^\s*[+-]?\d+\s*$")


def enc_cfg(spec: Any, none_is_absent: bool = False) -> Any:
    """explicit model of `int(v)`: JSON null = missing (default applies), int, or "bad" (int() raises)."""
    present, v = raw_of(spec)
    if not present:
        return None
    if v is None:
        return None if none_is_absent else "bad"
    if isinstance(v, bool):
        return 1 if v else 0
    if isinstance(v, int):
        return v
    if isinstance(v, float):
        if math.isnan(v) or math.isinf(v):
            return "bad"
        return math.trunc(v)
    if isinstance(v, str):
        return int(v.strip()) if _INT_RE.match(v) else "bad"
    return "bad"


def enc_state(st: dict) -> dict:
    return {"queue": [cp(a) for a in st["queue"]],
            "last": [[cp(k), v] for k, v in st["last_ran_ms"].items()],
            "consec": [[cp(k), v] for k, v in st["consec_turns"].items()]}


def obs_state(st: dict) -> dict:
    return {"queue": [cp(a) for a in st["queue"]],
            "last": sorted([cp(k), v] for k, v in st["last_ran_ms"].items()),
            "consec": sorted([cp(k), v] for k, v in st["consec_turns"].items())}


class Clock:
    def __init__(self):
        self.t = 0

    def now_ms(self):
        return self.t


# every shape of "clock on the ctx" that `_now_ms` accepts; the documented value is int(ctx.now_ms()) when that
# works and the constant 0 otherwise (no attribute, non-callable field, raising / non-numeric callable, ctx None)
CLOCK_SHAPES = ["callable_float", "callable_str", "callable_bool", "callable_bad", "callable_none", "callable_nan",
                "raises", "field_int", "field_float", "missing", "none_ctx", "attr_raises"]


def eff_clock(shape: str, t: int) -> int:
    """explicit re-statement of the documented clock for a ctx of this shape scripted to time t"""
    if shape in ("callable", "callable_str"):
        return t
    if shape == "callable_float":
        return math.trunc(t + 0.75)
    if shape == "callable_bool":
        return 1 if t % 2 else 0
    return 0


class _Holder:
    def __init__(self):
        self.t = 0


class ShapeCtx:
    def __init__(self, shape: str, h: _Holder):
        self._shape, self._h = shape, h

    def __getattr__(self, name):
        if name != "now_ms":
            raise AttributeError(name)
        sh, h = self._shape, self._h
        if sh == "callable":
            return lambda: h.t
        if sh == "callable_float":
            return lambda: h.t + 0.75
        if sh == "callable_str":
            return lambda: " %d " % h.t
        if sh == "callable_bool":
            return lambda: bool(h.t % 2)
        if sh == "callable_bad":
            return lambda: "soon"
        if sh == "callable_none":
            return lambda: None
        if sh == "callable_nan":
            return lambda: float("nan")
        if sh == "raises":
            def boom():
                raise RuntimeError("clock unavailable")
            return boom
        if sh == "field_int":
            return h.t            # the shape the orchestrator accepts for ctx.now_ms
        if sh == "field_float":
            return h.t + 0.5
        if sh == "attr_raises":
            raise RuntimeError("no clock on this ctx")
        raise AttributeError(name)


def make_ctx(shape: str):
    h = _Holder()
    if shape == "none_ctx":
        return h, None
    if shape == "missing":
        return h, object()
    return h, ShapeCtx(shape, h)


class WallClock:
    """process clocks scripted to `base` seconds (advancing 1 ms per reading) while the real code runs"""
    NAMES = ["time", "time_ns", "monotonic", "monotonic_ns", "perf_counter", "perf_counter_ns"]

    def __init__(self, base: float):
        self.base, self.n, self.saved = base, 0, {}

    def _sec(self):
        self.n += 1
        return self.base + self.n / 1000.0

    def __enter__(self):
        import time as _t
        for nm in self.NAMES:
            self.saved[nm] = getattr(_t, nm)
            setattr(_t, nm, (lambda: int(self._sec() * 1e9)) if nm.endswith("_ns") else self._sec)
        return self

    def __exit__(self, *a):
        import time as _t
        for nm, f in self.saved.items():
            setattr(_t, nm, f)
        return False


def start_state(case: dict) -> dict:
    from clematis.engine.scheduler import init_scheduler_state
    if "state" in case:
        st = case["state"]
        return {"queue": list(st["queue"]), "last_ran_ms": {k: v for k, v in st["last"]},
                "consec_turns": {k: v for k, v in st["consec"]}}
    return init_scheduler_state(list(case["init"]["ids"]), case["init"]["now"])


def fairness_of(aging_spec: Any, mct_spec: Any) -> dict:
    f = {}
    p, v = raw_of(aging_spec)
    if p:
        f["aging_ms"] = v
    p, v = raw_of(mct_spec)
    if p:
        f["max_consecutive_turns"] = v
    return f


def rotate(q: List[str], a: str) -> None:
    if a in q:
        q.remove(a)
        q.append(a)


# --------------------------------------------------------------------------
# component 1: histories
# --------------------------------------------------------------------------

ALPHABETS = [["a", "b", "c", "d", "e"], ["a", "aa", "ab", "b", "ba"], ["A", "a", "B", "b"],
             ["agent10", "agent2", "agent1", "agent"], ["", "a", "b"], ["é", "z", "Z", "e"],
             ["x"], ["b", "a"]]


class SchedHist(Component):
    name = "sched.hist"
    budget = {"quick": 700, "thorough": 12000, "search": 4000}

    # ---- generation ------------------------------------------------------
    def gen(self, rng: random.Random, i: int) -> dict:
        r = rng.random()
        if r < 0.70:
            case = self._gen_valid(rng)
        elif r < 0.88:
            case = self._gen_mixed(rng)
        else:
            case = self._gen_malformed(rng)
        case["clock"] = rng.choice(CLOCK_SHAPES) if rng.random() < 0.3 else "callable"
        return case

    def _ids(self, rng) -> List[str]:
        al = rng.choice(ALPHABETS)
        n = rng.choice([1, 2, 2, 3, 3, 3, 4, 4, 5])
        ids = rng.sample(al, min(n, len(al)))
        return ids

    def _clock_steps(self, rng, aging) -> List[int]:
        g = aging if isinstance(aging, int) and not isinstance(aging, bool) and aging > 0 else 10
        return [0, 0, 1, g - 1, g, 3 * g, -g, 10 ** 6, 2 * g + 1]

    def _tick(self, rng, now, fqmode, aging_spec, rotmode) -> Tuple[list, int]:
        steps = self._clock_steps(rng, aging_spec)
        np_ = now + rng.choice(steps)
        ny = np_ + rng.choice([0, 0, 0, 1, 5, -3])
        fq = fqmode if fqmode is not None else rng.random() < 0.5
        rot = rotmode if rotmode is not None else rng.random() < 0.5
        return ["tick", fq, aging_spec, np_, ny, rot], ny

    def _gen_valid(self, rng) -> dict:
        ids = self._ids(rng)
        mct = rng.choice([1, 1, 1, 2, 2, 3, 5, MISSING])
        aging = rng.choice([MISSING, 0, -5, 1, 7, 10, 10, 200])
        fqmode = rng.choice([True, True, False, None])
        rotmode = rng.choice([False, False, True, None])
        n = rng.choice([5, 12, 30, 60, 120, 200])
        now = rng.choice([0, 0, 1000, -50])
        case = {"init": {"ids": ids, "now": now}, "mct": mct, "ops": [], "kind": "valid"}
        for _ in range(n):
            op, now = self._tick(rng, now, fqmode, aging, rotmode)
            case["ops"].append(op)
        return case

    def _gen_mixed(self, rng) -> dict:
        ids = self._ids(rng)
        if rng.random() < 0.2:
            ids = ids + [rng.choice(ids)]  # duplicate ids
        if rng.random() < 0.06:
            ids = []
        mct = rng.choice([0, 1, 2, 3, -1, True, MISSING, {"float": "2.7"}, "2"])
        now = 0
        case = {"init": {"ids": ids, "now": rng.choice([0, 7])}, "mct": mct, "ops": [], "kind": "mixed"}
        pool = (ids or ["a"]) + ["zz", ""]
        for _ in range(rng.choice([4, 10, 25, 60])):
            r = rng.random()
            aging = rng.choice([MISSING, 0, -5, 1, 7, 10, 200, True, {"float": "9.9"}, "10"])
            if r < 0.45:
                op, now = self._tick(rng, now, None, aging, None)
                case["ops"].append(op)
            elif r < 0.70:
                now += rng.choice([0, 1, 9, 10, 30, -10])
                case["ops"].append(["next", rng.random() < 0.5, aging, now])
            elif r < 0.92:
                now += rng.choice([0, 1, 9, 10, 30, -10])
                case["ops"].append(["yield", rng.choice(pool), now, rng.random() < 0.25])
            else:
                case["ops"].append(["rot", rng.choice(pool)])
        return case

    def _gen_malformed(self, rng) -> dict:
        ids = self._ids(rng)
        q = list(ids)
        rng.shuffle(q)
        last = [[a, rng.choice([0, 5, 100, -7])] for a in q if rng.random() < 0.8]
        consec = [[a, rng.choice([0, 1, 2, 3, 7, -1])] for a in q if rng.random() < 0.8]
        if rng.random() < 0.3:
            consec.append(["ghost", 1])
        mct = rng.choice([0, 1, 2, 3, -1, MISSING, {"none": True}, "x", {"float": "nan"}, {"float": "inf"}, " 3 "])
        now = 0
        case = {"state": {"queue": q, "last": last, "consec": consec}, "mct": mct, "ops": [], "kind": "malformed"}
        for _ in range(rng.choice([3, 8, 20])):
            aging = rng.choice([MISSING, 0, 10, {"none": True}, "x", {"float": "nan"}, {"float": "-0.5"}, 3])
            r = rng.random()
            if r < 0.6:
                op, now = self._tick(rng, now, None, aging, None)
                case["ops"].append(op)
            elif r < 0.8:
                case["ops"].append(["next", rng.random() < 0.5, aging, now])
            else:
                case["ops"].append(["yield", rng.choice(q + ["ghost"]), now, rng.random() < 0.3])
        return case

    # ---- implementation ----------------------------------------------------
    def impl(self, case: dict) -> Any:
        shape = case.get("clock", "callable")
        # the same history under two different process clocks: selection must not depend on wall time
        with WallClock(1.7e9):
            a = self._run(case, shape, False)
        with WallClock(2.9e9 + 12345.678):
            b = self._run(case, shape, False)
        a["wall_ok"] = (a["out"] == b["out"])
        a["wall_diff"] = "" if a["wall_ok"] else next((f"op {i}: {x} vs {y}" for i, (x, y) in enumerate(zip(a["out"], b["out"])) if x != y), "length")[:300]
        if shape != "callable":
            # ... and a ctx without a usable clock behaves like a clock that reads the documented value
            with WallClock(2.1e9):
                c = self._run(case, "callable", True, eff_shape=shape)
            a["doc_ok"] = (a["out"] == c["out"])
            a["doc_diff"] = "" if a["doc_ok"] else next((f"op {i}: {x} vs documented {y}" for i, (x, y) in enumerate(zip(a["out"], c["out"])) if x != y), "length")[:300]
        return a

    def _run(self, case: dict, shape: str, documented: bool, eff_shape: str = "callable") -> Any:
        from clematis.engine.scheduler import next_turn, on_yield
        h, ctxobj = make_ctx(shape)

        class _Set:
            """`clk.t = x` scripts the clock; in the documented re-run x is first mapped by eff_clock"""
            def __setattr__(self_, k, v):
                h.t = eff_clock(eff_shape, v) if documented else v
        clk_set = _Set()
        st = start_state(case)
        return self._run_ops(case, st, clk_set, ctxobj, next_turn, on_yield)

    def _run_ops(self, case, st, clk_set, clk, next_turn, on_yield):
        out = [{"s": obs_state(st)}]
        picks = []   # (state-before (encoded), a, r) for the Lean Pick monitor
        det_ok = True
        for op in case["ops"]:
            tag = op[0]
            if tag in ("next", "tick"):
                fq = op[1]
                fair = fairness_of(op[2], case["mct"])
                clk_set.t = op[3]
                before = copy.deepcopy(st)
                try:
                    a, budgets, r = next_turn(clk, st, "fair_queue" if fq else "round_robin", fair)
                except Exception:
                    out.append({"raised": True})
                    continue
                # purity + determinism, observed on the real code
                if st != before or budgets != {}:
                    det_ok = False
                a2, _, r2 = next_turn(clk, copy.deepcopy(before), "fair_queue" if fq else "round_robin", dict(fair))
                if (a2, r2) != (a, r):
                    det_ok = False
                picks.append({"state": enc_state(before), "a": cp(a), "r": r, "aging": op[2]})
                if tag == "next":
                    out.append({"a": cp(a), "r": r})
                else:
                    clk_set.t = op[4]
                    on_yield(clk, st, a, {}, "", fair, reset=(r == "RESET_CONSEC"))
                    if op[5]:
                        rotate(st["queue"], a)
                    out.append({"a": cp(a), "r": r, "s": obs_state(st)})
            elif tag == "yield":
                clk_set.t = op[2]
                on_yield(clk, st, op[1], {}, "", {}, reset=op[3])
                out.append({"s": obs_state(st)})
            elif tag == "rot":
                rotate(st["queue"], op[1])
                out.append({"s": obs_state(st)})
        return {"out": out, "picks": picks, "det_ok": det_ok, "final": enc_state(st)}

    def request(self, case: dict) -> dict:
        rq: Dict[str, Any] = {"c": "sched.hist", "mct": enc_cfg(case["mct"])}
        if "state" in case:
            s = case["state"]
            rq["state"] = {"queue": [cp(a) for a in s["queue"]], "last": [[cp(k), v] for k, v in s["last"]],
                           "consec": [[cp(k), v] for k, v in s["consec"]]}
        else:
            rq["init"] = {"ids": [cp(a) for a in case["init"]["ids"]], "now": case["init"]["now"]}
        ops = []
        sh = case.get("clock", "callable")
        for op in case["ops"]:
            if op[0] == "next":
                ops.append(["next", op[1], enc_cfg(op[2]), eff_clock(sh, op[3])])
            elif op[0] == "tick":
                ops.append(["tick", op[1], enc_cfg(op[2]), eff_clock(sh, op[3]), eff_clock(sh, op[4]), op[5]])
            elif op[0] == "yield":
                ops.append(["yield", cp(op[1]), eff_clock(sh, op[2]), op[3]])
            else:
                ops.append(["rot", cp(op[1])])
        rq["ops"] = ops
        return rq

    def canon_model(self, case, out):
        if isinstance(out, list):
            for o in out:
                if isinstance(o, dict) and isinstance(o.get("s"), dict):
                    o["s"]["last"] = sorted(o["s"]["last"])
                    o["s"]["consec"] = sorted(o["s"]["consec"])
        return out

    def compare(self, case, impl_out, model_out):
        if isinstance(impl_out, dict) and "out" in impl_out:
            impl_out = impl_out["out"]
        return super().compare(case, impl_out, model_out)

    # ---- monitors ------------------------------------------------------------
    @staticmethod
    def _valid_bound_case(case) -> Optional[Tuple[List[str], int]]:
        """tick-only history from init with distinct ids and int allowance >= 1 -> (sorted ids, m)."""
        if "init" not in case or any(op[0] != "tick" for op in case["ops"]):
            return None
        ids = case["init"]["ids"]
        if not ids or len(set(ids)) != len(ids):
            return None
        m = enc_cfg(case["mct"])
        if m is None:
            m = MAXI
        if not isinstance(m, int) or m < 1:
            return None
        return sorted(ids), m

    def monitor_requests(self, case, impl_out) -> List[Tuple[str, dict]]:
        rq = []
        m = enc_cfg(case["mct"])
        if m is None:
            m = MAXI
        if isinstance(m, int):
            for p in impl_out["picks"]:
                rq.append(("pick", {"c": "sched.pick", "state": p["state"], "mct": m, "a": p["a"], "r": p["r"]}))
        vb = self._valid_bound_case(case)
        if vb is not None and not any("raised" in o for o in impl_out["out"]):
            ids, mm = vb
            trace = [o["a"] for o in impl_out["out"][1:]]
            if mm < 10 ** 6:
                rq.append(("gaps", {"c": "sched.gaps", "queue": [cp(a) for a in ids], "m": mm, "trace": trace}))
            rq.append(("consec", {"c": "sched.consec", "state": impl_out["final"], "mct": mm}))
        return rq

    def monitors(self, case, impl_out):
        res = [("deterministic_pure", impl_out["det_ok"], "next_turn mutated its state or answered differently on a copy"),
               ("independent_of_process_clock", impl_out.get("wall_ok", True),
                f"ctx clock shape {case.get('clock', 'callable')!r}: same history, two process wall clocks, different picks/state: {impl_out.get('wall_diff')}")]
        if "doc_ok" in impl_out:
            res.append(("clockless_ctx_reads_documented_clock", impl_out["doc_ok"],
                        f"ctx clock shape {case.get('clock')!r} must behave as the documented clock (int(now_ms()) or 0): {impl_out.get('doc_diff')}"))
        for p in impl_out["picks"]:
            q = p["state"]["queue"]
            if q:
                res.append(("chosen_is_queued", p["a"] in q, f"chose {p['a']} not in queue {q}"))
        vb = self._valid_bound_case(case)
        if vb is not None and not any("raised" in o for o in impl_out["out"]):
            ids, m = vb
            n = len(ids)
            bound = 2 * (n - 1) * m + 1
            trace = ["".join(chr(c) for c in o["a"]) for o in impl_out["out"][1:]]
            worst, who = 0, None
            for x in ids:
                cur = 0
                for a in trace:
                    cur = 0 if a == x else cur + 1
                    if cur > worst:
                        worst, who = cur, x
            res.append(("starvation_bound", worst <= bound, f"agent {who!r} waited {worst} > {bound} (n={n}, m={m})"))
            first = (n - 1) * m + 1
            if len(trace) >= first:
                miss = [x for x in ids if x not in trace[:first]]
                res.append(("first_selection", not miss, f"agents {miss} not selected among the first {first}"))
            # "all allowances reset": after a RESET tick every counter is zero
            okr = all(all(v == 0 for _, v in o["s"]["consec"]) for o in impl_out["out"][1:] if o.get("r") == "RESET_CONSEC")
            res.append(("reset_zeroes_all", okr, "a counter is non-zero right after a RESET_CONSEC turn's bookkeeping"))
            # counters within the allowance after every tick
            okc = all(0 <= v <= m for o in impl_out["out"] if "s" in o for _, v in o["s"]["consec"])
            res.append(("consec_bounded", okc, "a counter left [0, allowance]"))
        return res

    def tags(self, case, impl_out):
        t = {case.get("kind", "corpus"), "clock=" + case.get("clock", "callable")}
        outs = impl_out["out"]
        if any("raised" in o for o in outs):
            t.add("raised")
        for p in impl_out["picks"]:
            t.add({"RESET_CONSEC": "reset", "AGING_BOOST": "fq", "ROUND_ROBIN": "rr"}[p["r"]])
            if not p["state"]["queue"]:
                t.add("empty_queue")
            if p["a"] == [] and p["state"]["queue"]:
                t.add("empty_id_chosen")
        for op in case["ops"]:
            if op[0] == "tick" and op[5]:
                t.add("rot")
        clocks = [op[3] for op in case["ops"] if op[0] in ("next", "tick")]
        if any(b < a for a, b in zip(clocks, clocks[1:])):
            t.add("backwards_clock")
        if "init" in case and len(set(case["init"]["ids"])) != len(case["init"]["ids"]):
            t.add("dup_ids")
        vb = self._valid_bound_case(case)
        if vb is not None and "raised" not in t:
            ids, m = vb
            n = len(ids)
            trace = ["".join(chr(c) for c in o["a"]) for o in outs[1:]]
            worst = 0
            for x in ids:
                cur = 0
                for a in trace:
                    cur = 0 if a == x else cur + 1
                    worst = max(worst, cur)
            if n > 1 and worst == 2 * (n - 1) * m + 1:
                t.add("gap_eq_bound")
            elif n > 1 and worst > (n - 1) * m:
                t.add("gap_above_half")
            # fair-queue pick different from the first eligible agent (aging actually decided)
            for p in impl_out["picks"]:
                if p["r"] == "AGING_BOOST":
                    cons = {tuple(k): v for k, v in p["state"]["consec"]}
                    el = [a for a in p["state"]["queue"] if cons.get(tuple(a), 0) < m]
                    if el and p["a"] != el[0]:
                        t.add("aging_decided")
                        break
        return sorted(t)

    def shrink(self, case):
        ops = case["ops"]
        for k in (len(ops) // 2, len(ops) // 4, 1):
            if k >= 1 and len(ops) > k:
                yield dict(case, ops=ops[:-k])
        for i in range(len(ops)):
            yield dict(case, ops=ops[:i] + ops[i + 1:])
        if "init" in case and len(case["init"]["ids"]) > 1:
            ids = case["init"]["ids"]
            for i in range(len(ids)):
                yield dict(case, init={"ids": ids[:i] + ids[i + 1:], "now": case["init"]["now"]})


# --------------------------------------------------------------------------
# component 2: yield decision
# --------------------------------------------------------------------------

BKEYS = ["wall_ms", "t1_iters", "t1_pops", "t2_k", "t3_ops", "quantum_ms"]
CKEYS = ["ms", "t1_iters", "t1_pops", "t2_k", "t3_ops"]
STAGE = ["t1_iters", "t1_pops", "t2_k", "t3_ops"]
REASON = {"t1_iters": "BUDGET_T1_ITERS", "t1_pops": "BUDGET_T1_POPS", "t2_k": "BUDGET_T2_K", "t3_ops": "BUDGET_T3_OPS"}


class YieldDecide(Component):
    name = "yield.decide"
    budget = {"quick": 1500, "thorough": 40000, "search": 20000}

    def gen(self, rng: random.Random, i: int) -> dict:
        b, c = {}, {}
        vals = [0, 1, 2, 3, 5, 20, 21, 19, -1, 100]
        for k in BKEYS:
            if rng.random() < 0.6:
                b[k] = rng.choice(vals)
        for k in CKEYS:
            if rng.random() < 0.75:
                if k in b and rng.random() < 0.5:
                    c[k] = b[k] + rng.choice([0, 0, 0, 1, -1])
                else:
                    c[k] = rng.choice(vals)
        if "ms" in c and rng.random() < 0.5:
            tgt = rng.choice([b.get("wall_ms", 20), b.get("quantum_ms", 20)])
            c["ms"] = tgt + rng.choice([0, -1, 1])
        return {"budgets": b, "consumed": c}

    def impl(self, case):
        from clematis.engine.orchestrator.core import _should_yield
        return _should_yield({"slice_idx": 1, "started_ms": 0, "budgets": dict(case["budgets"]), "agent_id": "a"},
                             dict(case["consumed"]))

    def request(self, case):
        return {"c": "yield.decide", "budgets": case["budgets"], "consumed": case["consumed"]}

    def monitor_requests(self, case, impl_out):
        return [("precedence", {"c": "yield.spec", "budgets": case["budgets"], "consumed": case["consumed"], "r": impl_out})]

    @staticmethod
    def _hits(case):
        b, c = case["budgets"], case["consumed"]
        el = c.get("ms", 0)
        hits = []
        if "wall_ms" in b and el >= b["wall_ms"]:
            hits.append("WALL_MS")
        for k in STAGE:
            if k in b and k in c and c[k] == b[k]:
                hits.append(REASON[k])
        if el >= b.get("quantum_ms", 20):
            hits.append("QUANTUM_EXCEEDED")
        return hits

    def monitors(self, case, impl_out):
        hits = self._hits(case)
        want = hits[0] if hits else None
        return [("precedence_py", impl_out == want, f"returned {impl_out!r}, precedence table gives {want!r} (hits {hits})")]

    def tags(self, case, impl_out):
        hits = self._hits(case)
        t = [str(impl_out)]
        if len(hits) > 1:
            t.append("multi_hit")
        if "quantum_ms" not in case["budgets"]:
            t.append("default_quantum")
        return t

    def shrink(self, case):
        for part in ("budgets", "consumed"):
            for k in list(case[part]):
                d = dict(case[part])
                del d[k]
                yield dict(case, **{part: d})


class YieldDerive(Component):
    name = "yield.derive"
    budget = {"quick": 600, "thorough": 8000, "search": 5000}

    def gen(self, rng: random.Random, i: int) -> dict:
        vals = [0, 1, 3, 20, -2, True, False, {"float": "2.9"}, {"float": "-0.5"}, "7", " 8 ", {"none": True},
                {"none": True}, MISSING, MISSING, MISSING]
        bad = ["x", {"float": "nan"}, {"float": "inf"}, ""]
        b = {}
        for k in ["t1_pops", "t1_iters", "t2_k", "t3_ops", "wall_ms", "unknown_key"]:
            v = rng.choice(vals + (bad if rng.random() < 0.15 else []))
            if v != MISSING:
                b[k] = v
        q = rng.choice([MISSING, MISSING, 20, 0, 5, True, {"float": "3.7"}, "9"] + ([{"none": True}, "x"] if rng.random() < 0.3 else []))
        mode = rng.choice(["dict", "dict", "dict", "none", "missing"])
        return {"budgets": b, "quantum_ms": q, "mode": mode}

    def impl(self, case):
        import types
        from clematis.engine.orchestrator.core import _derive_budgets
        s: Dict[str, Any] = {"enabled": True}
        if case["mode"] == "dict":
            s["budgets"] = {k: raw_of(v)[1] for k, v in case["budgets"].items()}
        elif case["mode"] == "none":
            s["budgets"] = None
        p, v = raw_of(case["quantum_ms"])
        if p:
            s["quantum_ms"] = v
        try:
            out = _derive_budgets(types.SimpleNamespace(cfg={"scheduler": s}))
        except Exception:
            return {"raised": True}
        ok_types = all(type(v) is int for v in out.values())
        return {"budgets": out, "ints": ok_types}

    def request(self, case):
        rq = {"c": "yield.derive", "quantum_ms": enc_cfg(case["quantum_ms"])}
        for k in ["t1_pops", "t1_iters", "t2_k", "t3_ops", "wall_ms"]:
            rq[k] = enc_cfg(case["budgets"][k], none_is_absent=True) if (case["mode"] == "dict" and k in case["budgets"]) else None
        return rq

    def compare(self, case, impl_out, model_out):
        if isinstance(impl_out, dict) and "budgets" in impl_out:
            impl_out = {"budgets": impl_out["budgets"]}
        return super().compare(case, impl_out, model_out)

    def monitors(self, case, impl_out):
        if "raised" in impl_out:
            return []
        return [("budgets_are_ints", impl_out["ints"], f"non-int budget value in {impl_out['budgets']}"),
                ("quantum_always_set", "quantum_ms" in impl_out["budgets"], "quantum_ms missing")]

    def tags(self, case, impl_out):
        if "raised" in impl_out:
            return ["raised"]
        t = ["n=%d" % len(impl_out["budgets"]), "mode=" + case["mode"]]
        if "quantum_ms" in case and case["quantum_ms"] == MISSING:
            t.append("default_quantum")
        return t


# --------------------------------------------------------------------------
# component 3: exhaustive small scope on the real code
# --------------------------------------------------------------------------

P61 = (1 << 61) - 1
RCODE = {"ROUND_ROBIN": 0, "AGING_BOOST": 1, "RESET_CONSEC": 2}


def exhaust_real(ids: List[str], m: int, fq: bool, aging: int, rot: bool, alpha: List[int], depth: int):
    """DFS over all clock-advance histories of the REAL next_turn/on_yield; mirrors Driver.HSched.dfs."""
    from clematis.engine.scheduler import init_scheduler_state, next_turn, on_yield
    clk = Clock()
    st0 = init_scheduler_state(list(ids), 0)
    order = list(st0["queue"])
    idx = {a: i for i, a in enumerate(order)}
    policy = "fair_queue" if fq else "round_robin"
    fair = {"aging_ms": aging, "max_consecutive_turns": m}
    acc = {"count": 0, "hash": 0, "maxgap": 0, "witness": None}
    n = len(order)
    bound = 2 * (n - 1) * m + 1

    def rec(st, now, gaps, d, path):
        if d == 0:
            acc["count"] += 1
            return
        for dl in alpha:
            np_ = now + dl
            clk.t = np_
            s2 = {"queue": list(st["queue"]), "last_ran_ms": dict(st["last_ran_ms"]),
                  "consec_turns": dict(st["consec_turns"])}
            a, _, r = next_turn(clk, s2, policy, fair)
            on_yield(clk, s2, a, {}, "", fair, reset=(r == "RESET_CONSEC"))
            if rot:
                rotate(s2["queue"], a)
            acc["hash"] = (acc["hash"] * 1000003 + idx.get(a, 99) * 3 + RCODE[r] + 1) % P61
            g2 = [0 if x == a else g + 1 for x, g in zip(order, gaps)]
            mg = max(g2) if g2 else 0
            if mg > acc["maxgap"]:
                acc["maxgap"] = mg
                if mg > bound and acc["witness"] is None:
                    acc["witness"] = path + [dl]
            rec(s2, np_, g2, d - 1, path + [dl])

    rec(st0, 0, [0] * n, depth, [])
    return acc, bound


class Exhaust(Component):
    """custom loop; cases are configurations."""
    name = "sched.exhaust"
    deciding = True

    def configs(self, tier: str, rng: random.Random) -> List[dict]:
        out = []
        pool = ["a", "b", "c", "d"]
        if tier == "quick":
            for n, m, fq, aging, rot, depth in [(2, 1, True, 10, False, 7), (3, 1, True, 10, False, 7), (3, 1, False, 10, True, 7),
                                                 (3, 2, True, 10, True, 7), (2, 2, True, 0, False, 7), (4, 1, True, 10, False, 6),
                                                 (3, 1, True, 10, True, 7), (1, 1, True, 10, False, 5)]:
                out.append({"ids": pool[:n], "mct": m, "fq": fq, "aging": aging, "rot": rot,
                            "alpha": [0, aging - 1, aging, 3 * aging] if aging > 0 else [0, 5, -5], "depth": depth})
            out.append({"ids": ["a", "b", "c"], "mct": 1, "fq": True, "aging": 10, "rot": False, "alpha": [0, 10, -25], "depth": 9})
        else:
            for n in (1, 2, 3, 4):
                for m in (1, 2):
                    for fq in (False, True):
                        for aging in (10, 0):
                            for rot in (False, True):
                                if not fq and aging == 0:
                                    continue  # RR ignores aging (C17_Next_deterministic_rr); one aging value suffices
                                out.append({"ids": pool[:n], "mct": m, "fq": fq, "aging": aging, "rot": rot,
                                            "alpha": [0, aging - 1, aging, 3 * aging] if aging > 0 else [0, 5, -5],
                                            "depth": 7})
            # deeper, narrower alphabets so that waits can actually reach the bound (2(n-1)m+1)
            for n, m, alpha, depth in [(2, 1, [0, 10, -25], 11), (3, 1, [0, 10, -25], 11), (3, 1, [0, 30], 14),
                                       (2, 2, [0, 10, -25], 11), (3, 2, [0, 25], 14), (4, 1, [0, 10, -25], 10)]:
                for rot in (False, True):
                    out.append({"ids": pool[:n], "mct": m, "fq": True, "aging": 10, "rot": rot, "alpha": alpha, "depth": depth})
        return out

    def impl(self, case):
        acc, bound = exhaust_real(case["ids"], case["mct"], case["fq"], case["aging"], case["rot"], case["alpha"], case["depth"])
        return {"count": acc["count"], "hash": str(acc["hash"]), "maxgap": acc["maxgap"], "bound": bound,
                "witness": acc["witness"]}

    def request(self, case):
        return {"c": "sched.exhaust", "ids": [cp(a) for a in case["ids"]], "mct": case["mct"], "fq": case["fq"],
                "aging": case["aging"], "rot": case["rot"], "alpha": case["alpha"], "depth": case["depth"]}

    def compare(self, case, impl_out, model_out):
        if not isinstance(model_out, dict) or "count" not in model_out:
            return f"model error {model_out}"
        for k in ("count", "hash", "maxgap", "bound"):
            if impl_out[k] != model_out[k]:
                return f".{k}: impl={impl_out[k]} model={model_out[k]}"
        if not (model_out["pickOk"] and model_out["consOk"]):
            return f"model-side Pick/consec predicate false: {model_out}"
        return None

    def monitors(self, case, impl_out):
        return [("exhaustive_starvation_bound", impl_out["maxgap"] <= impl_out["bound"],
                 f"max wait {impl_out['maxgap']} > bound {impl_out['bound']} on clock path {impl_out['witness']}")]

    def tags(self, case, impl_out):
        t = ["n=%d" % len(case["ids"]), "m=%d" % case["mct"], "fq" if case["fq"] else "rr"]
        if case["rot"]:
            t.append("rot")
        if impl_out["maxgap"] == impl_out["bound"] and len(case["ids"]) > 1:
            t.append("gap_eq_bound")
        return t


def run_exhaust(ctx: Ctx, comp: Exhaust) -> None:
    tier = "thorough" if ctx.tier == "thorough" else "quick"   # escalated search reuses the quick scopes
    cases = comp.configs(tier, ctx.rng_for(comp.name)) + comp.corpus(ctx)
    reqs = [comp.request(c) for c in cases]
    resps = run_driver(reqs)
    rows = []
    for c, rs in zip(cases, resps):
        io = comp.impl(c)
        ctx.record_case(comp.name, c, comp.tags(c, io))
        mo = rs.get("ok", {"__model_err__": rs.get("err")})
        d = comp.compare(c, io, mo)
        if d is not None:
            ctx.mismatch(comp.name, c, d, io, mo)
        for name, ok, detail in comp.monitors(c, io):
            if not ok:
                # hand a concrete tick history to the history component so that the replay is a plain trace
                now, ops = 0, []
                for dl in io["witness"] or []:
                    now += dl
                    ops.append(["tick", c["fq"], c["aging"], now, now, c["rot"]])
                hc = {"init": {"ids": c["ids"], "now": 0}, "mct": c["mct"], "ops": ops, "kind": "valid"}
                ctx.monitor_fail("sched.hist", "starvation_bound", hc, detail, None)
        rows.append({"n": len(c["ids"]), "m": c["mct"], "fq": c["fq"], "aging": c["aging"], "rot": c["rot"],
                     "alpha": c["alpha"], "depth": c["depth"], "leaves": io["count"], "maxgap": io["maxgap"],
                     "bound": io["bound"]})
    ctx.extra.setdefault("exhaustive_scopes", []).extend(rows)
    ctx.extra["exhaustive_leaves_total"] = sum(r["leaves"] for r in ctx.extra["exhaustive_scopes"])


HIST = SchedHist()
EXH = Exhaust()
COMPONENTS = [HIST, YieldDecide(), YieldDerive(), EXH]


def run(ctx: Ctx) -> None:
    run_component(ctx, HIST)
    run_component(ctx, COMPONENTS[1])
    run_component(ctx, COMPONENTS[2])
    run_exhaust(ctx, EXH)
    from harness.lib import c17_stages
    c17_stages.run(ctx)


def replay(ctx: Ctx, rec: dict) -> int:
    from harness.core import generic_replay
    from harness.lib import c17_stages
    c17_stages.STATE["scratch"] = ctx.tmpdir("c17snap")
    comps = {c.name: c for c in COMPONENTS}
    comps.update({c.name: c for c in c17_stages.COMPONENTS})
    return generic_replay(ctx, rec, comps)
