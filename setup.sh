#!/bin/bash
# MANIFEST.setup_cmd: build the Lean project (library, property theorems, driver) offline.
set -e
here="$(cd "$(dirname "$0")" && pwd)"
cd "$here"
export PYTHONPATH="$here" PYTHONDONTWRITEBYTECODE=1
/venv/bin/python - <<'PY'
from pathlib import Path
from harness import core, gen_main
core.regenerate_tables()
gen_main.main(core.LEAN)
PY
cd lean
lake build Clem clemdrv
echo "setup ok"
