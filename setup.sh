#!/bin/bash
# MANIFEST.setup_cmd: regenerate tables from /repo, build the Lean project (library, property
# theorems, driver) offline.  A Lean target that no longer builds is NOT a setup failure: every
# check rebuilds what it needs and reports a broken obligation for its own property only.
here="$(cd "$(dirname "$0")" && pwd)"
cd "$here" || exit 2
export PYTHONPATH="$here" PYTHONDONTWRITEBYTECODE=1
/venv/bin/python - <<'PY' || { echo "setup: table generation failed"; exit 2; }
from harness import core, gen_main
info = core.regenerate_tables()
for e in info.get("errors", []):
    print("setup: NOTE translator error:", e)
gen_main.main(core.LEAN)
PY
cd lean || exit 2
command -v lake >/dev/null || { echo "setup: lake not on PATH"; exit 2; }
if lake build Clem clemdrv; then
  echo "setup ok"
else
  echo "setup: some Lean targets did not build; the checks of the affected properties will report it"
fi
exit 0
